// Engine S: KLEE-style symbolic interpreter over pruned LLVM-14 IR with z3.
//  - concrete heap addresses (object-id<<32 | offset), byte-granular memory with a sparse overlay of symbolic bytes
//  - symbolic scalars are z3 bit-vector terms; pointers may be "object + symbolic offset"
//  - forks on symbolic branches / pointer selects / concretisations; every path is explored (DFS) or the run is inconclusive
//  - built-in obligations: out-of-bounds, use-after-free, double free, invalid function pointer, throw, VBK_ASSERT, trap
//  - harness obligations: __verif_check ; witnesses: __verif_cover ; differential log: __verif_observe
// Exit codes: 0 all paths explored and no violation, 1 violation(s) found (to be replayed natively by the driver),
//             2 inconclusive (bound hit / unsupported feature / solver unknown), 3 internal error.
#include <llvm/IR/Constants.h>
#include <llvm/IR/DataLayout.h>
#include <llvm/IR/DebugInfoMetadata.h>
#include <llvm/IR/Instructions.h>
#include <llvm/IR/IntrinsicInst.h>
#include <llvm/IR/LLVMContext.h>
#include <llvm/IR/Module.h>
#include <llvm/IR/Operator.h>
#include <llvm/IRReader/IRReader.h>
#include <llvm/Support/SourceMgr.h>
#include <llvm/Support/raw_ostream.h>
#include <sys/mman.h>
#include <sys/wait.h>
#include <unistd.h>
#include <z3++.h>
#include <csignal>

#include <algorithm>
#include <chrono>
#include <cmath>
#include <cstdio>
#include <cstring>
#include <fstream>
#include <functional>
#include <map>
#include <memory>
#include <set>
#include <sstream>
#include <string>
#include <unordered_map>
#include <vector>
using namespace llvm;
typedef unsigned __int128 u128;

static z3::context Z;
static const DataLayout* DL;

// ---------------------------------------------------------------- options
static uint64_t optMaxSteps = 20000000;      // per path
static uint64_t optMaxPaths = 2000000;       // total
static double optMaxWall = 1e9;              // seconds
static unsigned optQueryTimeoutMs = 0;  // 0 = none (z3's per-check timer thread costs ~10 ms per query); the driver enforces wall time
static bool optHavocSha = false;              // --havoc-sha 1: altintegration::sha256(out,in,len) over data with symbolic bytes returns 32 fresh symbolic bytes (over-approximation: any digest)
static bool optForkPtr = false;               // --fork-ptr 1: a symbolic pointer is case-split into its feasible values instead of becoming an ITE chain over the object
static unsigned optMaxEnum = 300;            // feasible values of a concretised index/length/pointer
static unsigned optSamplePaths = 200;        // path records kept for native replay validation
static unsigned optJobs = 1;
static bool optStopFirst = false;
static bool optConcrete = false;             // --vector: nondet values come from a file, print the native-format trace
static std::vector<uint64_t> concVector;
static std::string optOut;
static bool optVerbose = false;
static uint32_t optShard = 0, optShards = 1;  // --shard i/n : deterministic partition of the path tree

static double now() {
  return std::chrono::duration<double>(std::chrono::steady_clock::now().time_since_epoch()).count();
}
static double tStart;

// ---------------------------------------------------------------- values
struct Val {
  unsigned w = 0;
  u128 c = 0;
  std::shared_ptr<z3::expr> e;  // symbolic iff set
  uint32_t pobj = 0;            // for symbolic pointers: the object the pointer points into
  bool isAgg = false;
  std::vector<Val> agg;
  bool sym() const { return (bool)e; }
};
static u128 maskw(unsigned w) { return w >= 128 ? ~(u128)0 : (((u128)1 << w) - 1); }
static Val conc(unsigned w, u128 c) {
  Val v;
  v.w = w;
  v.c = c & maskw(w);
  return v;
}
static z3::expr bvval(u128 c, unsigned w) {
  if (w <= 64) return Z.bv_val((uint64_t)c, w);
  z3::expr lo = Z.bv_val((uint64_t)c, 64);
  if (w <= 128) return z3::concat(Z.bv_val((uint64_t)(c >> 64), w - 64), lo);
  return z3::zext(z3::concat(Z.bv_val((uint64_t)(c >> 64), 64), lo), w - 128);
}
struct State;
static State* gCur = nullptr;                       // state being executed (for folding terms whose inputs are all pinned)
static bool foldPinned(z3::expr& e);                // defined after State
static Val symv(unsigned w, const z3::expr& e0, uint32_t pobj = 0) {
  z3::expr s = e0.simplify();
  if (gCur && !s.is_numeral()) foldPinned(s);
  if (s.is_numeral() && w <= 128) {
    uint64_t x = 0;
    if (w <= 64) {
      if (s.is_numeral_u64(x)) return conc(w, x);
    } else {
      uint64_t lo = 0, hi = 0;
      if (s.extract(63, 0).simplify().is_numeral_u64(lo) && s.extract(w - 1, 64).simplify().is_numeral_u64(hi))
        return conc(w, ((u128)hi << 64) | lo);
    }
  }
  Val v;
  v.w = w;
  v.e = std::make_shared<z3::expr>(s);
  v.pobj = pobj;
  return v;
}
static z3::expr toExpr(const Val& v) {
  if (v.sym()) return *v.e;
  return bvval(v.c, v.w);
}
static int64_t sx(const Val& v) {
  if (v.w >= 64) return (int64_t)(uint64_t)v.c;
  return (int64_t)((uint64_t)v.c << (64 - v.w)) >> (64 - v.w);
}
static unsigned widthOf(Type* t) {
  if (t->isIntegerTy()) return t->getIntegerBitWidth();
  if (t->isPointerTy() || t->isDoubleTy()) return 64;
  if (t->isFloatTy()) return 32;
  return 0;
}

// ---------------------------------------------------------------- memory, frames, state
struct Obj {
  uint64_t size = 0;
  std::vector<uint8_t> b;
  std::map<uint64_t, std::shared_ptr<z3::expr>> s;
  // word cache: a symbolic value stored whole at an offset is returned whole by a load of the same width
  // (keeps word-level structure instead of extract/concat over bytes); every overlapping store invalidates it
  std::map<uint64_t, std::pair<unsigned, std::shared_ptr<z3::expr>>> words;
  bool freed = false, heap = false;
  const Function* fn = nullptr;
  std::string name;
};
struct FnInfo {
  std::unordered_map<const Value*, unsigned> slot;
  unsigned n = 0;
};
static std::unordered_map<const Function*, FnInfo> fnInfo;
static FnInfo& infoOf(const Function* F) {
  auto it = fnInfo.find(F);
  if (it != fnInfo.end()) return it->second;
  FnInfo& fi = fnInfo[F];
  for (auto& a : F->args()) fi.slot[&a] = fi.n++;
  for (auto& bb : *F)
    for (auto& I : bb)
      if (!I.getType()->isVoidTy()) fi.slot[&I] = fi.n++;
  return fi;
}
struct Frame {
  const Function* F = nullptr;
  const FnInfo* fi = nullptr;
  const BasicBlock* bb = nullptr;
  const BasicBlock* prev = nullptr;
  BasicBlock::const_iterator it;
  std::vector<Val> regs;
  std::vector<uint32_t> allocas;
  const CallInst* callsite = nullptr;
};
struct Input {
  std::string name;
  unsigned w;
  z3::expr e;
};
struct State {
  std::vector<Frame> st;
  std::map<uint32_t, std::shared_ptr<Obj>> mem;
  std::vector<z3::expr> pc;
  std::vector<std::vector<uint32_t>> pcVars;  // input ids of each pc constraint
  std::vector<Input> inputs;
  std::vector<uint64_t> model;  // value per input; satisfies pc (inputs beyond its size are 0)
  uint32_t nextObj = 1;
  uint64_t steps = 0;
  std::vector<Val> observes;
  std::vector<int> covers;
  std::vector<int> failedChecks;
  bool expectThrow = false;
  std::map<uint32_t, uint64_t> pins;  // inputs fixed to a constant by an equality constraint (used to fold later conditions)
  uint32_t shLo = 0, shHi = 1;  // shard ids this state's subtree is responsible for
  std::vector<const Function*> pending;  // functions still to run after the current one returns (static ctors, then entry)
};
static std::map<const GlobalValue*, uint32_t> gobj;
static std::map<uint32_t, const Function*> fobj;
static uint64_t mkptr(uint32_t o, uint64_t off) { return ((uint64_t)o << 32) | (off & 0xffffffffu); }

// ---------------------------------------------------------------- statistics / results
struct Violation {
  std::string kind;  // check|assert|oob|uaf|free|fnptr|throw|trap|model
  long id = 0;       // check id / assert line
  std::string site;  // file:line of innermost frame with debug info (+ function)
  std::vector<std::pair<std::string, uint64_t>> inputs;
  std::string sig() const { return kind + ":" + std::to_string(id) + "@" + site; }
};
struct PathRec {
  std::string end;
  std::vector<uint64_t> inputs;
  std::vector<uint64_t> observes;
  std::vector<int> covers;
  std::vector<int> failedChecks;
};
struct Stats {
  uint64_t paths = 0, infeasible = 0, bounded = 0, queries = 0, cacheHits = 0, modelHits = 0, insts = 0, forks = 0,
           violationsTotal = 0, maxInputs = 0, otherShard = 0;
  double solver_s = 0;
  std::map<int, uint64_t> coverCount;
  std::map<std::string, uint64_t> endKinds;
  std::vector<std::string> boundReasons;
} ST;
static std::map<std::string, std::pair<uint64_t, std::vector<Violation>>> gViol;  // sig -> (count, first models)
static std::vector<PathRec> gPaths;
static bool gInconclusive = false;

struct PathEnd {
  std::string kind;  // "infeasible", "bound:<why>", "violation", ...
};
static void bound(const std::string& why) {
  gInconclusive = true;
  if (ST.boundReasons.size() < 20 && std::find(ST.boundReasons.begin(), ST.boundReasons.end(), why) == ST.boundReasons.end())
    ST.boundReasons.push_back(why);
  throw PathEnd{"bound"};
}
[[noreturn]] static void internalError(const std::string& m) {
  fprintf(stderr, "symex: INTERNAL: %s\n", m.c_str());
  exit(3);
}

// ---------------------------------------------------------------- solver layer
static std::unordered_map<unsigned, std::vector<uint32_t>> varsMemo;  // ast id -> sorted input ids
static std::unordered_map<unsigned, uint32_t> inputIdOfAst;          // ast id of an input constant -> input id
static std::vector<z3::expr> keepAlive;                               // pin memoised asts
static const std::vector<uint32_t>& varsOf(const z3::expr& e) {
  unsigned id = Z3_get_ast_id(Z, e);
  auto it = varsMemo.find(id);
  if (it != varsMemo.end()) return it->second;
  std::vector<uint32_t> out;
  if (e.is_app()) {
    auto ii = inputIdOfAst.find(id);
    if (ii != inputIdOfAst.end())
      out.push_back(ii->second);
    else {
      unsigned n = e.num_args();
      for (unsigned i = 0; i < n; i++) {
        const auto& sub = varsOf(e.arg(i));
        std::vector<uint32_t> m;
        std::set_union(out.begin(), out.end(), sub.begin(), sub.end(), std::back_inserter(m));
        out.swap(m);
      }
    }
  }
  keepAlive.push_back(e);
  return varsMemo[id] = out;
}
static bool intersects(const std::vector<uint32_t>& a, const std::vector<uint32_t>& b) {
  size_t i = 0, j = 0;
  while (i < a.size() && j < b.size()) {
    if (a[i] == b[j]) return true;
    if (a[i] < b[j]) i++; else j++;
  }
  return false;
}
// evaluate a term under the state's model (inputs missing from the model are 0)
static z3::expr evalUnder(const State& s, const z3::expr& e) {
  const auto& vs = varsOf(e);
  if (vs.empty()) return e.simplify();
  z3::expr_vector from(Z), to(Z);
  for (uint32_t v : vs) {
    from.push_back(s.inputs[v].e);
    to.push_back(Z.bv_val(v < s.model.size() ? s.model[v] : 0, s.inputs[v].w));
  }
  z3::expr r = e;
  return r.substitute(from, to).simplify();
}
static uint64_t evalU64(const State& s, const Val& v) {
  if (!v.sym()) return (uint64_t)v.c;
  z3::expr r = evalUnder(s, *v.e);
  uint64_t x = 0;
  if (v.w > 64) r = r.extract(63, 0).simplify();
  if (!r.is_numeral_u64(x)) internalError("model evaluation did not give a numeral");
  return x;
}
struct CacheEnt {
  int res;  // 1 sat 0 unsat
  std::vector<std::pair<uint32_t, uint64_t>> vals;
};
static std::map<std::vector<unsigned>, CacheEnt> qcache;
// Is pc ∧ extra satisfiable?  On sat, *newModel receives the state's model updated on the variables of the slice.
static bool feasible(const State& s, const z3::expr& extra, std::vector<uint64_t>* newModel) {
  // quick path: the current model already satisfies extra
  {
    z3::expr r = evalUnder(s, extra);
    if (r.is_true()) {
      ST.modelHits++;
      if (newModel) *newModel = s.model;
      return true;
    }
  }
  // independence slicing
  std::vector<uint32_t> vars = varsOf(extra);
  std::vector<char> used(s.pc.size(), 0);
  bool changed = true;
  while (changed) {
    changed = false;
    for (size_t i = 0; i < s.pc.size(); i++) {
      if (used[i] || !intersects(s.pcVars[i], vars)) continue;
      used[i] = 1;
      changed = true;
      std::vector<uint32_t> m;
      std::set_union(vars.begin(), vars.end(), s.pcVars[i].begin(), s.pcVars[i].end(), std::back_inserter(m));
      vars.swap(m);
    }
  }
  std::vector<unsigned> key;
  for (size_t i = 0; i < s.pc.size(); i++)
    if (used[i]) key.push_back(Z3_get_ast_id(Z, s.pc[i]));
  std::sort(key.begin(), key.end());
  key.push_back(0xffffffffu);
  key.push_back(Z3_get_ast_id(Z, extra));
  auto ci = qcache.find(key);
  const CacheEnt* ent = nullptr;
  if (ci != qcache.end()) {
    ST.cacheHits++;
    ent = &ci->second;
  } else {
    static z3::solver* gsv = nullptr;
    static int mode = -1;
    if (mode < 0) { const char* m = getenv("SYMEX_SOLVER"); mode = m ? atoi(m) : 0; }
    if (!gsv || mode >= 1) { delete gsv; gsv = mode == 2 ? new z3::solver(Z, "QF_BV") : new z3::solver(Z); }
    z3::solver& sv = *gsv;
    struct Popper { z3::solver& s; bool on; ~Popper() { if (on) s.pop(); } };
    if (mode == 0) sv.push();
    Popper popper{sv, mode == 0};
    if (optQueryTimeoutMs) {
      z3::params p(Z);
      p.set("timeout", optQueryTimeoutMs);
      sv.set(p);
    }
    for (size_t i = 0; i < s.pc.size(); i++)
      if (used[i]) sv.add(s.pc[i]);
    sv.add(extra);
    double t0 = now();
    z3::check_result r = sv.check();
    double dt = now() - t0;
    ST.solver_s += dt;
    if (getenv("SYMEX_DUMP") && dt > 0.3) { static int nd = 0; if (nd++ < 5) fprintf(stderr, "---- query %.3fs\n%s\n", dt, sv.to_smt2().c_str()); }
    ST.queries++;
    if (r == z3::unknown) bound("solver returned unknown (timeout " + std::to_string(optQueryTimeoutMs) + " ms)");
    CacheEnt ce;
    ce.res = r == z3::sat;
    if (r == z3::sat) {
      z3::model m = sv.get_model();
      for (uint32_t v : vars) {
        uint64_t x = 0;
        m.eval(s.inputs[v].e, true).is_numeral_u64(x);
        ce.vals.push_back({v, x});
      }
    }
    keepAlive.push_back(extra);
    ent = &(qcache[key] = ce);
  }
  if (!ent->res) return false;
  if (newModel) {
    *newModel = s.model;
    if (newModel->size() < s.inputs.size()) newModel->resize(s.inputs.size(), 0);
    for (auto& p : ent->vals) (*newModel)[p.first] = p.second;
  }
  return true;
}
static void notePin(State& s, const z3::expr& e) {
  // pattern: (= X numeral) where X is an input, possibly under zero-extension (concat 0.. X)
  if (!e.is_app() || e.decl().decl_kind() != Z3_OP_EQ) return;
  z3::expr a = e.arg(0), b = e.arg(1);
  if (a.is_numeral()) std::swap(a, b);
  if (!b.is_numeral()) return;
  uint64_t val;
  if (!b.is_numeral_u64(val)) return;
  while (a.is_app() && (a.decl().decl_kind() == Z3_OP_CONCAT || a.decl().decl_kind() == Z3_OP_ZERO_EXT)) {
    if (a.decl().decl_kind() == Z3_OP_ZERO_EXT) { a = a.arg(0); continue; }
    unsigned n = a.num_args();
    bool zeros = true;
    for (unsigned i = 0; i + 1 < n; i++) { uint64_t z; if (!a.arg(i).is_numeral_u64(z) || z != 0) zeros = false; }
    if (!zeros) return;
    a = a.arg(n - 1);
  }
  auto it = inputIdOfAst.find(Z3_get_ast_id(Z, a));
  if (it == inputIdOfAst.end()) return;
  unsigned w = a.get_sort().bv_size();
  if (w < 64 && (val >> w)) return;
  s.pins[it->second] = val;
}
static void addConstraint(State& s, const z3::expr& e) {
  s.pc.push_back(e);
  s.pcVars.push_back(varsOf(e));
  notePin(s, e);
}
// fold a term with the pinned inputs of the state
static z3::expr applyPins(const State& s, const z3::expr& e) {
  if (s.pins.empty()) return e;
  const auto& vs = varsOf(e);
  z3::expr_vector from(Z), to(Z);
  for (uint32_t v : vs) {
    auto it = s.pins.find(v);
    if (it == s.pins.end()) continue;
    from.push_back(s.inputs[v].e);
    to.push_back(Z.bv_val(it->second, s.inputs[v].w));
  }
  if (from.empty()) return e;
  z3::expr r = e;
  return r.substitute(from, to).simplify();
}
static z3::expr asBool(const Val& v) { return toExpr(v) != bvval(0, v.w); }


static bool foldPinned(z3::expr& e) {
  State& st = *gCur;
  if (st.pins.empty()) return false;
  const auto& vs = varsOf(e);
  if (vs.empty()) return false;
  for (uint32_t v : vs) if (!st.pins.count(v)) return false;
  e = applyPins(st, e);
  return true;
}

// ---------------------------------------------------------------- significant-bits analysis (cheap narrowing of mul/div)
// sigBits(e): an upper bound on 1 + index of the highest bit of e that can be set.  Multiplications and divisions whose
// operands are provably narrow (zero-extended bytes, small constants) are performed at the narrow width and zero-extended:
// bit-blasting a 64-bit divider for "len*138/100" costs z3 hundreds of ms per query, the 17-bit one nothing.
static std::unordered_map<unsigned, unsigned> sigMemo;
static unsigned sigBits(const z3::expr& e) {
  unsigned w = e.get_sort().bv_size();
  unsigned id = Z3_get_ast_id(Z, e);
  auto it = sigMemo.find(id);
  if (it != sigMemo.end()) return it->second;
  unsigned r = w;
  if (e.is_numeral()) {
    uint64_t x;
    if (e.is_numeral_u64(x)) { r = 0; while (x) { r++; x >>= 1; } }
  } else if (e.is_app()) {
    auto sat = [&](uint64_t v) { return (unsigned)std::min<uint64_t>(v, w); };
    unsigned n = e.num_args();
    switch (e.decl().decl_kind()) {
      case Z3_OP_CONCAT: {
        unsigned lowW = 0;
        r = 0;
        // args[0] is the most significant part
        std::vector<unsigned> ws(n), ss(n);
        for (unsigned i = 0; i < n; i++) { ws[i] = e.arg(i).get_sort().bv_size(); ss[i] = sigBits(e.arg(i)); }
        for (int i = (int)n - 1; i >= 0; i--) { if (ss[i]) r = lowW + ss[i]; lowW += ws[i]; }
        break;
      }
      case Z3_OP_ZERO_EXT: r = sigBits(e.arg(0)); break;
      case Z3_OP_ITE: r = std::max(sigBits(e.arg(1)), sigBits(e.arg(2))); break;
      case Z3_OP_BADD: { unsigned m = 0; for (unsigned i = 0; i < n; i++) m = std::max(m, sigBits(e.arg(i))); unsigned extra = 0; while ((1u << extra) < n) extra++; r = sat((uint64_t)m + extra); break; }
      case Z3_OP_BMUL: { uint64_t m = 0; for (unsigned i = 0; i < n; i++) m += sigBits(e.arg(i)); r = sat(m); break; }
      case Z3_OP_BAND: { unsigned m = w; for (unsigned i = 0; i < n; i++) m = std::min(m, sigBits(e.arg(i))); r = m; break; }
      case Z3_OP_BOR: case Z3_OP_BXOR: { unsigned m = 0; for (unsigned i = 0; i < n; i++) m = std::max(m, sigBits(e.arg(i))); r = m; break; }
      case Z3_OP_BLSHR: { uint64_t k; unsigned sa = sigBits(e.arg(0)); r = (e.arg(1).is_numeral_u64(k)) ? (k >= sa ? 0 : sa - (unsigned)k) : sa; break; }
      case Z3_OP_BSHL: { uint64_t k; unsigned sa = sigBits(e.arg(0)); r = (e.arg(1).is_numeral_u64(k)) ? sat((uint64_t)sa + k) : w; break; }
      case Z3_OP_BUDIV: case Z3_OP_BUDIV_I: r = sigBits(e.arg(0)); break;
      case Z3_OP_BUREM: case Z3_OP_BUREM_I: r = std::min(sigBits(e.arg(0)), sigBits(e.arg(1))); break;
      case Z3_OP_EXTRACT: { unsigned lo = e.lo(), hi = e.hi(); unsigned sa = sigBits(e.arg(0)); r = std::min(hi - lo + 1, sa > lo ? sa - lo : 0u); break; }
      default: break;
    }
  }
  keepAlive.push_back(e);
  return sigMemo[id] = r;
}

// signed range analysis (value read as a signed w-bit integer lies in [lo,hi]); used to narrow signed mul/div
struct SRange { bool ok; __int128 lo, hi; };
static std::unordered_map<unsigned, SRange> srMemo;
static SRange sRange(const z3::expr& e) {
  unsigned w = e.get_sort().bv_size();
  unsigned id = Z3_get_ast_id(Z, e);
  auto it = srMemo.find(id);
  if (it != srMemo.end()) return it->second;
  SRange r{false, 0, 0};
  const __int128 LIM = (__int128)1 << 100;
  auto fits = [&](__int128 lo, __int128 hi) { return w <= 100 ? (lo >= -((__int128)1 << (w - 1)) && hi < ((__int128)1 << (w - 1))) : (lo > -LIM && hi < LIM); };
  unsigned sb = sigBits(e);
  if (sb < w && sb <= 100) r = SRange{true, 0, sb == 0 ? 0 : (((__int128)1 << sb) - 1)};
  else if (e.is_numeral()) {
    uint64_t x;
    if (w <= 64 && e.is_numeral_u64(x)) { __int128 v = x; if (w < 128 && (v >> (w - 1)) & 1) v -= (__int128)1 << w; r = SRange{true, v, v}; }
  } else if (e.is_app()) {
    unsigned n = e.num_args();
    switch (e.decl().decl_kind()) {
      case Z3_OP_BADD: {
        __int128 lo = 0, hi = 0; bool ok = true;
        for (unsigned i = 0; i < n && ok; i++) { SRange a = sRange(e.arg(i)); ok = a.ok; lo += a.lo; hi += a.hi; }
        if (ok && fits(lo, hi)) r = SRange{true, lo, hi};
        break;
      }
      case Z3_OP_BMUL: {
        if (n != 2) break;
        SRange a = sRange(e.arg(0)), b = sRange(e.arg(1));
        if (!a.ok || !b.ok) break;
        auto small = [&](__int128 v) { return v > -((__int128)1 << 60) && v < ((__int128)1 << 60); };
        if (!small(a.lo) || !small(a.hi) || !small(b.lo) || !small(b.hi)) break;
        __int128 c[4] = {a.lo * b.lo, a.lo * b.hi, a.hi * b.lo, a.hi * b.hi};
        __int128 lo = c[0], hi = c[0];
        for (int i = 1; i < 4; i++) { lo = std::min(lo, c[i]); hi = std::max(hi, c[i]); }
        if (fits(lo, hi)) r = SRange{true, lo, hi};
        break;
      }
      case Z3_OP_BNEG: { SRange a = sRange(e.arg(0)); if (a.ok && fits(-a.hi, -a.lo)) r = SRange{true, -a.hi, -a.lo}; break; }
      case Z3_OP_ITE: { SRange a = sRange(e.arg(1)), b = sRange(e.arg(2)); if (a.ok && b.ok) r = SRange{true, std::min(a.lo, b.lo), std::max(a.hi, b.hi)}; break; }
      case Z3_OP_SIGN_EXT: r = sRange(e.arg(0)); break;
      case Z3_OP_BSDIV: case Z3_OP_BSDIV_I: case Z3_OP_BSREM: case Z3_OP_BSREM_I: {
        SRange a = sRange(e.arg(0));
        if (a.ok) { __int128 m = std::max(a.hi < 0 ? -a.hi : a.hi, a.lo < 0 ? -a.lo : a.lo); if (fits(-m, m)) r = SRange{true, -m, m}; }
        break;
      }
      default: break;
    }
  }
  keepAlive.push_back(e);
  return srMemo[id] = r;
}
static Val symvRanged(unsigned w, const z3::expr& e, const SRange& r) {  // remember the range: z3's simplifier rewrites sign_extend into concats
  Val v = symv(w, e);
  if (v.sym() && r.ok) { srMemo[Z3_get_ast_id(Z, *v.e)] = r; keepAlive.push_back(*v.e); }
  return v;
}
static unsigned signedBitsFor(__int128 lo, __int128 hi) {  // smallest n with -2^(n-1) <= lo, hi < 2^(n-1)
  unsigned n = 1;
  while (n < 120 && !(lo >= -((__int128)1 << (n - 1)) && hi < ((__int128)1 << (n - 1)))) n++;
  return n;
}
static bool isPow2(u128 c, unsigned& k) { if (c == 0 || (c & (c - 1))) return false; k = 0; while (!((c >> k) & 1)) k++; return true; }
static z3::expr shlConst(const z3::expr& x, unsigned k) {  // x * 2^k as concat(extract, zeros): no multiplier circuit
  unsigned w = x.get_sort().bv_size();
  if (k == 0) return x;
  if (k >= w) return bvval(0, w);
  return z3::concat(x.extract(w - 1 - k, 0), bvval(0, k));
}
static z3::expr narrowTo(const z3::expr& e, unsigned n) { return n == e.get_sort().bv_size() ? e : e.extract(n - 1, 0); }

// ---------------------------------------------------------------- violations
static std::string siteOf(const State& s) {
  for (size_t i = s.st.size(); i-- > 0;) {
    const Frame& f = s.st[i];
    if (f.bb == nullptr) continue;
    auto it = f.it;
    if (it != f.bb->begin()) --it;
    if (const DebugLoc& dl = it->getDebugLoc()) {
      std::string fn = dl->getFilename().str();
      size_t p = fn.rfind('/');
      if (p != std::string::npos) fn = fn.substr(p + 1);
      return fn + ":" + std::to_string(dl.getLine()) + " in " + f.F->getName().str();
    }
  }
  return s.st.empty() ? std::string("?") : s.st.back().F->getName().str();
}
static std::string siteOverride;
// record a violation reachable under pc ∧ cond (cond may be null = unconditional on this path)
static bool violation(State& s, const std::string& kind, long id, const z3::expr* cond) {
  std::vector<uint64_t> m;
  if (cond) {
    if (!feasible(s, *cond, &m)) return false;
  } else
    m = s.model;
  m.resize(s.inputs.size(), 0);
  Violation v;
  v.kind = kind;
  v.id = id;
  v.site = siteOverride.empty() ? siteOf(s) : siteOverride;
  for (size_t i = 0; i < s.inputs.size(); i++) v.inputs.push_back({s.inputs[i].name, m[i]});
  ST.violationsTotal++;
  auto& slot = gViol[v.sig()];
  slot.first++;
  if (slot.second.size() < 3) slot.second.push_back(v);
  return true;
}
[[noreturn]] static void fatalViolation(State& s, const std::string& kind, long id) {
  violation(s, kind, id, nullptr);
  throw PathEnd{"violation:" + kind};
}

// ---------------------------------------------------------------- memory access
static Obj& wobj(State& s, uint32_t id) {
  auto& p = s.mem[id];
  if (p.use_count() > 1) p = std::make_shared<Obj>(*p);
  return *p;
}
static uint32_t newObj(State& s, uint64_t size, bool heap, const std::string& nm) {
  uint32_t id = s.nextObj++;
  auto o = std::make_shared<Obj>();
  o->size = size;
  o->b.assign(size, 0);
  o->heap = heap;
  o->name = nm;
  s.mem[id] = o;
  return id;
}
static const Obj* robj(State& s, uint64_t ptr, uint64_t n, const char* what) {
  uint32_t id = ptr >> 32;
  uint64_t off = ptr & 0xffffffffu;
  auto it = s.mem.find(id);
  if (ptr == 0 || it == s.mem.end() || it->second->fn) fatalViolation(s, std::string("oob"), ptr == 0 ? 0 : 1);  // null / dangling / wild
  const Obj* o = it->second.get();
  if (o->freed) fatalViolation(s, "uaf", 0);
  if (off + n > o->size) fatalViolation(s, "oob", 2);
  return o;
}
static void dropWords(Obj& o, uint64_t off, uint64_t n) {
  if (o.words.empty() || n == 0) return;
  auto it = o.words.lower_bound(off >= 16 ? off - 16 : 0);
  while (it != o.words.end() && it->first < off + n) {
    uint64_t wb = (it->second.first + 7) / 8;
    if (it->first + wb > off) it = o.words.erase(it); else ++it;
  }
}
static Val loadBytes(const Obj* o, uint64_t off, unsigned n, unsigned w) {
  if (!o->words.empty()) {
    auto wi = o->words.find(off);
    if (wi != o->words.end() && wi->second.first == w) { Val v; v.w = w; v.e = wi->second.second; return v; }
  }
  bool anysym = false;
  if (!o->s.empty())
    for (unsigned i = 0; i < n; i++)
      if (o->s.count(off + i)) { anysym = true; break; }
  if (!anysym && n <= 16) {
    u128 c = 0;
    for (unsigned i = 0; i < n; i++) c |= (u128)o->b[off + i] << (8 * i);
    return conc(w, c);
  }
  z3::expr e = Z.bv_val(0, 1);
  bool first = true;
  for (int i = n - 1; i >= 0; i--) {
    auto it = o->s.find(off + i);
    z3::expr by = it != o->s.end() ? *it->second : Z.bv_val((unsigned)o->b[off + i], 8);
    if (first) { e = by; first = false; } else e = z3::concat(e, by);
  }
  if (w < n * 8) e = e.extract(w - 1, 0);
  return symv(w, e);
}
static void storeInt(State& s, uint64_t ptr, const Val& v);
static Val loadInt(State& s, uint64_t ptr, unsigned w) {
  unsigned n = (w + 7) / 8;
  const Obj* o = robj(s, ptr, n, "load");
  Val v = loadBytes(o, ptr & 0xffffffffu, n, w);
  if (v.sym() && !s.pins.empty()) {
    z3::expr e = *v.e;
    if (foldPinned(e)) { Val c = symv(w, e); if (!c.sym()) { storeInt(s, ptr, c); return c; } }   // all inputs pinned: the cell is concrete from now on
  }
  return v;
}
static void storeInt(State& s, uint64_t ptr, const Val& v) {
  unsigned n = (v.w + 7) / 8;
  robj(s, ptr, n, "store");
  Obj& o = wobj(s, ptr >> 32);
  uint64_t off = ptr & 0xffffffffu;
  dropWords(o, off, n);
  if (!v.sym()) {
    for (unsigned i = 0; i < n; i++) {
      o.b[off + i] = (uint8_t)(v.c >> (8 * i));
      if (!o.s.empty()) o.s.erase(off + i);
    }
    return;
  }
  if (v.w >= 16 && v.w % 8 == 0) o.words[off] = {v.w, v.e};
  z3::expr e = *v.e;
  if (v.w < n * 8) e = z3::zext(e, n * 8 - v.w);
  for (unsigned i = 0; i < n; i++) {
    z3::expr by = e.extract(8 * i + 7, 8 * i).simplify();
    uint64_t x;
    if (by.is_numeral_u64(x)) {
      o.b[off + i] = (uint8_t)x;
      o.s.erase(off + i);
    } else
      o.s[off + i] = std::make_shared<z3::expr>(by);
  }
}
static uint64_t concretize(State& s, const Val& v, const char* what);
// resolve a (possibly symbolic) pointer for an access of n bytes; symbolic offsets inside a known object are
// bounds-checked with the solver (a feasible out-of-range offset is a violation with its own model).
struct SymAcc { bool symbolic; uint64_t ptr; uint32_t obj; z3::expr off; };
static SymAcc resolvePtr(State& s, const Val& p, uint64_t n, bool forStore) {
  if (!p.sym()) return {false, (uint64_t)p.c, 0, Z.bv_val(0, 64)};
  if (p.pobj && !forStore && !optForkPtr) {
    auto it = s.mem.find(p.pobj);
    if (it != s.mem.end() && !it->second->freed && it->second->size <= 4096 && it->second->size >= n) {
      z3::expr off = (*p.e - Z.bv_val(mkptr(p.pobj, 0), 64)).simplify();
      z3::expr bad = z3::ugt(off, Z.bv_val(it->second->size - n, 64));
      if (violation(s, "oob", 3, &bad)) {
        z3::expr ok = !bad;
        std::vector<uint64_t> m;
        if (!feasible(s, ok, &m)) throw PathEnd{"violation:oob"};
        addConstraint(s, ok);
        s.model = m;
      }
      return {true, 0, p.pobj, off};
    }
  }
  return {false, concretize(s, p, "pointer"), 0, Z.bv_val(0, 64)};
}
static Val loadSymOff(State& s, uint32_t obj, const z3::expr& off, unsigned w) {
  const Obj* o = s.mem[obj].get();
  unsigned n = (w + 7) / 8;
  z3::expr acc = bvval(0, w);
  bool first = true;
  for (uint64_t k = 0; k + n <= o->size; k++) {
    Val v = loadBytes(o, k, n, w);
    z3::expr ve = toExpr(v);
    if (first) { acc = ve; first = false; } else acc = z3::ite(off == Z.bv_val(k, 64), ve, acc);
  }
  return symv(w, acc);
}
static Val loadTy(State& s, const Val& p, Type* t) {
  unsigned w = widthOf(t);
  if (w) {
    SymAcc a = resolvePtr(s, p, (w + 7) / 8, false);
    if (a.symbolic) return loadSymOff(s, a.obj, a.off, w);
    return loadInt(s, a.ptr, w);
  }
  uint64_t ptr = resolvePtr(s, p, DL->getTypeStoreSize(t), true).ptr;
  Val r;
  r.isAgg = true;
  if (auto* st = dyn_cast<StructType>(t)) {
    auto* sl = DL->getStructLayout(st);
    for (unsigned i = 0; i < st->getNumElements(); i++)
      r.agg.push_back(loadTy(s, conc(64, ptr + sl->getElementOffset(i)), st->getElementType(i)));
    return r;
  }
  if (auto* at = dyn_cast<ArrayType>(t)) {
    uint64_t es = DL->getTypeAllocSize(at->getElementType());
    for (uint64_t i = 0; i < at->getNumElements(); i++) r.agg.push_back(loadTy(s, conc(64, ptr + i * es), at->getElementType()));
    return r;
  }
  if (auto* vt = dyn_cast<FixedVectorType>(t)) {
    uint64_t es = DL->getTypeAllocSize(vt->getElementType());
    for (uint64_t i = 0; i < vt->getNumElements(); i++) r.agg.push_back(loadTy(s, conc(64, ptr + i * es), vt->getElementType()));
    return r;
  }
  internalError("loadTy: unsupported type");
}
static void storeTy(State& s, const Val& p, Type* t, const Val& v) {
  if (!v.isAgg) {
    uint64_t ptr = resolvePtr(s, p, (v.w + 7) / 8, true).ptr;
    storeInt(s, ptr, v);
    return;
  }
  uint64_t ptr = resolvePtr(s, p, DL->getTypeStoreSize(t), true).ptr;
  if (auto* st = dyn_cast<StructType>(t)) {
    auto* sl = DL->getStructLayout(st);
    for (unsigned i = 0; i < st->getNumElements(); i++)
      storeTy(s, conc(64, ptr + sl->getElementOffset(i)), st->getElementType(i), v.agg[i]);
    return;
  }
  Type* et = isa<ArrayType>(t) ? cast<ArrayType>(t)->getElementType() : cast<FixedVectorType>(t)->getElementType();
  uint64_t es = DL->getTypeAllocSize(et);
  for (uint64_t i = 0; i < v.agg.size(); i++) storeTy(s, conc(64, ptr + i * es), et, v.agg[i]);
}
static Val zeroOf(Type* t) {
  if (t->isStructTy() || t->isArrayTy() || t->isVectorTy()) {
    Val r;
    r.isAgg = true;
    if (auto* st = dyn_cast<StructType>(t))
      for (auto* e : st->elements()) r.agg.push_back(zeroOf(e));
    else if (auto* at = dyn_cast<ArrayType>(t))
      for (uint64_t i = 0; i < at->getNumElements(); i++) r.agg.push_back(zeroOf(at->getElementType()));
    else {
      auto* vt = cast<FixedVectorType>(t);
      for (uint64_t i = 0; i < vt->getNumElements(); i++) r.agg.push_back(zeroOf(vt->getElementType()));
    }
    return r;
  }
  return conc(widthOf(t), 0);
}

// ---------------------------------------------------------------- constants
static Val constVal(const Constant* c);
static int64_t gepConstOffset(Type* srcTy, const std::vector<int64_t>& idx) {
  int64_t off = 0;
  Type* cur = srcTy;
  bool first = true;
  for (int64_t k : idx) {
    if (first) { off += k * (int64_t)DL->getTypeAllocSize(cur); first = false; continue; }
    if (auto* st = dyn_cast<StructType>(cur)) { off += DL->getStructLayout(st)->getElementOffset(k); cur = st->getElementType(k); }
    else if (auto* at = dyn_cast<ArrayType>(cur)) { cur = at->getElementType(); off += k * (int64_t)DL->getTypeAllocSize(cur); }
    else if (auto* vt = dyn_cast<FixedVectorType>(cur)) { cur = vt->getElementType(); off += k * (int64_t)DL->getTypeAllocSize(cur); }
    else internalError("gep into scalar");
  }
  return off;
}
static Val binop(unsigned op, const Val& a, const Val& b);
static Val constVal(const Constant* c) {
  Type* t = c->getType();
  if (auto* ci = dyn_cast<ConstantInt>(c)) {
    const APInt& a = ci->getValue();
    unsigned bw = a.getBitWidth();
    if (bw > 128) {
      // wide constant: keep as z3 numeral
      z3::expr e = Z.bv_val(0, 1);
      bool first = true;
      for (int lo = ((bw - 1) / 64) * 64; lo >= 0; lo -= 64) {
        unsigned n = std::min(64u, bw - lo);
        z3::expr part = Z.bv_val((uint64_t)a.extractBitsAsZExtValue(n, lo), n);
        if (first) { e = part; first = false; } else e = z3::concat(e, part);
      }
      Val v; v.w = bw; v.e = std::make_shared<z3::expr>(e); return v;
    }
    u128 v = a.extractBitsAsZExtValue(std::min(64u, bw), 0);
    if (bw > 64) v |= (u128)a.extractBitsAsZExtValue(bw - 64, 64) << 64;
    return conc(bw, v);
  }
  if (isa<ConstantPointerNull>(c)) return conc(64, 0);
  if (isa<UndefValue>(c)) return zeroOf(t);
  if (auto* cf = dyn_cast<ConstantFP>(c)) return conc(widthOf(t), cf->getValueAPF().bitcastToAPInt().getZExtValue());
  if (auto* gv = dyn_cast<GlobalValue>(c)) {
    if (auto* ga = dyn_cast<GlobalAlias>(gv)) return constVal(ga->getAliasee());
    auto it = gobj.find(gv);
    if (it == gobj.end()) internalError("unknown global " + gv->getName().str());
    return conc(64, mkptr(it->second, 0));
  }
  if (isa<ConstantAggregateZero>(c)) return zeroOf(t);
  if (auto* ca = dyn_cast<ConstantAggregate>(c)) {
    Val r; r.isAgg = true;
    for (unsigned i = 0; i < ca->getNumOperands(); i++) r.agg.push_back(constVal(cast<Constant>(ca->getOperand(i))));
    return r;
  }
  if (auto* cd = dyn_cast<ConstantDataSequential>(c)) {
    Val r; r.isAgg = true;
    for (unsigned i = 0; i < cd->getNumElements(); i++) r.agg.push_back(constVal(cd->getElementAsConstant(i)));
    return r;
  }
  if (auto* ce = dyn_cast<ConstantExpr>(c)) {
    switch (ce->getOpcode()) {
      case Instruction::BitCast: case Instruction::PtrToInt: case Instruction::IntToPtr: case Instruction::AddrSpaceCast: {
        Val v = constVal(ce->getOperand(0));
        if (widthOf(t)) { v.w = widthOf(t); v.c &= maskw(v.w); }
        return v;
      }
      case Instruction::Trunc: { Val v = constVal(ce->getOperand(0)); return conc(widthOf(t), v.c); }
      case Instruction::ZExt: { Val v = constVal(ce->getOperand(0)); return conc(widthOf(t), v.c); }
      case Instruction::GetElementPtr: {
        auto* g = cast<GEPOperator>(ce);
        Val base = constVal(cast<Constant>(g->getPointerOperand()));
        std::vector<int64_t> idx;
        for (auto it = g->idx_begin(); it != g->idx_end(); ++it) idx.push_back(sx(constVal(cast<Constant>(*it))));
        return conc(64, (uint64_t)base.c + gepConstOffset(g->getSourceElementType(), idx));
      }
      case Instruction::Add: case Instruction::Sub: case Instruction::And: case Instruction::Or: case Instruction::Mul:
        return binop(ce->getOpcode(), constVal(ce->getOperand(0)), constVal(ce->getOperand(1)));
      default: break;
    }
  }
  std::string str; raw_string_ostream os(str); c->print(os);
  internalError("unsupported constant " + str);
}

// ---------------------------------------------------------------- arithmetic
static Val binop(unsigned op, const Val& a, const Val& b) {
  unsigned w = a.w;
  if (!a.sym() && !b.sym()) {
    u128 x = a.c, y = b.c, r = 0;
    auto sx128 = [&](u128 v) -> __int128 { if (w >= 128) return (__int128)v; return (__int128)(v << (128 - w)) >> (128 - w); };
    switch (op) {
      case Instruction::Add: r = x + y; break;
      case Instruction::Sub: r = x - y; break;
      case Instruction::Mul: r = x * y; break;
      case Instruction::UDiv: r = y ? x / y : 0; break;
      case Instruction::URem: r = y ? x % y : 0; break;
      case Instruction::SDiv: r = y ? (u128)(sx128(x) / sx128(y)) : 0; break;
      case Instruction::SRem: r = y ? (u128)(sx128(x) % sx128(y)) : 0; break;
      case Instruction::Shl: r = y >= w ? 0 : x << (unsigned)y; break;
      case Instruction::LShr: r = y >= w ? 0 : x >> (unsigned)y; break;
      case Instruction::AShr: r = (u128)(sx128(x) >> (y >= w ? w - 1 : (unsigned)y)); break;
      case Instruction::And: r = x & y; break;
      case Instruction::Or: r = x | y; break;
      case Instruction::Xor: r = x ^ y; break;
      default: internalError("binop");
    }
    return conc(w, r);
  }
  z3::expr x = toExpr(a), y = toExpr(b);
  uint32_t po = (op == Instruction::Add || op == Instruction::Sub) ? (a.pobj ? a.pobj : (op == Instruction::Add ? b.pobj : 0)) : 0;
  switch (op) {
    case Instruction::Add: return symv(w, x + y, po);
    case Instruction::Sub: return symv(w, x - y, po);
    case Instruction::Mul: {
      unsigned k;
      if (!a.sym() && isPow2(a.c, k)) return symv(w, shlConst(y, k));
      if (!b.sym() && isPow2(b.c, k)) return symv(w, shlConst(x, k));
      uint64_t n = (uint64_t)sigBits(x) + sigBits(y);
      if (n == 0) return conc(w, 0);
      if (n < w) return symv(w, z3::zext(narrowTo(x, (unsigned)n) * narrowTo(y, (unsigned)n), w - (unsigned)n));
      {
        z3::expr full = x * y;
        SRange pr = sRange(full);
        SRange ra = sRange(x), rb = sRange(y);
        if (pr.ok && ra.ok && rb.ok) {
          unsigned k = std::max(signedBitsFor(pr.lo, pr.hi), std::max(signedBitsFor(ra.lo, ra.hi), signedBitsFor(rb.lo, rb.hi)));
          if (k < w) return symvRanged(w, z3::sext(narrowTo(x, k) * narrowTo(y, k), w - k), pr);
        }
        return symv(w, full);
      }
    }
    case Instruction::UDiv: case Instruction::URem: case Instruction::SDiv: case Instruction::SRem: {
      unsigned sa = sigBits(x), sb = sigBits(y);
      unsigned n = std::max(std::max(sa, sb), 1u);
      bool uns = op == Instruction::UDiv || op == Instruction::URem;
      bool div = op == Instruction::UDiv || op == Instruction::SDiv;
      if (n < w && (uns || (sa < w && sb < w))) {  // both operands non-negative when read as signed
        z3::expr a = narrowTo(x, n), b = narrowTo(y, n);
        return symv(w, z3::zext(div ? z3::udiv(a, b) : z3::urem(a, b), w - n));
      }
      if (!uns) {
        SRange ra = sRange(x), rb = sRange(y);
        if (ra.ok && rb.ok) {
          unsigned k = std::max(signedBitsFor(ra.lo, ra.hi), signedBitsFor(rb.lo, rb.hi)) + 1;  // +1: no overflow of MIN / -1
          if (k < w) {
            z3::expr a = narrowTo(x, k), b = narrowTo(y, k);
            __int128 m = std::max(ra.hi < 0 ? -ra.hi : ra.hi, ra.lo < 0 ? -ra.lo : ra.lo);
            return symvRanged(w, z3::sext(div ? a / b : z3::srem(a, b), w - k), SRange{true, -m, m});
          }
        }
      }
      if (op == Instruction::UDiv) return symv(w, z3::udiv(x, y));
      if (op == Instruction::URem) return symv(w, z3::urem(x, y));
      if (op == Instruction::SDiv) return symv(w, x / y);
      return symv(w, z3::srem(x, y));
    }
    case Instruction::Shl: return symv(w, z3::shl(x, y));
    case Instruction::LShr: return symv(w, z3::lshr(x, y));
    case Instruction::AShr: return symv(w, z3::ashr(x, y));
    case Instruction::And: return symv(w, x & y);
    case Instruction::Or: return symv(w, x | y);
    case Instruction::Xor: return symv(w, x ^ y);
    default: internalError("sym binop");
  }
}
static Val icmp(CmpInst::Predicate p, const Val& a, const Val& b) {
  if (!a.sym() && !b.sym()) {
    bool r = false;
    u128 x = a.c, y = b.c;
    unsigned w = a.w;
    auto sxx = [&](u128 v) -> __int128 { if (w >= 128) return (__int128)v; return (__int128)(v << (128 - w)) >> (128 - w); };
    __int128 sa = sxx(x), sb = sxx(y);
    switch (p) {
      case CmpInst::ICMP_EQ: r = x == y; break;
      case CmpInst::ICMP_NE: r = x != y; break;
      case CmpInst::ICMP_UGT: r = x > y; break;
      case CmpInst::ICMP_UGE: r = x >= y; break;
      case CmpInst::ICMP_ULT: r = x < y; break;
      case CmpInst::ICMP_ULE: r = x <= y; break;
      case CmpInst::ICMP_SGT: r = sa > sb; break;
      case CmpInst::ICMP_SGE: r = sa >= sb; break;
      case CmpInst::ICMP_SLT: r = sa < sb; break;
      case CmpInst::ICMP_SLE: r = sa <= sb; break;
      default: internalError("icmp pred");
    }
    return conc(1, r);
  }
  z3::expr x = toExpr(a), y = toExpr(b);
  z3::expr r = Z.bool_val(false);
  switch (p) {
    case CmpInst::ICMP_EQ: r = x == y; break;
    case CmpInst::ICMP_NE: r = x != y; break;
    case CmpInst::ICMP_UGT: r = z3::ugt(x, y); break;
    case CmpInst::ICMP_UGE: r = z3::uge(x, y); break;
    case CmpInst::ICMP_ULT: r = z3::ult(x, y); break;
    case CmpInst::ICMP_ULE: r = z3::ule(x, y); break;
    case CmpInst::ICMP_SGT: r = x > y; break;
    case CmpInst::ICMP_SGE: r = x >= y; break;
    case CmpInst::ICMP_SLT: r = x < y; break;
    case CmpInst::ICMP_SLE: r = x <= y; break;
    default: internalError("icmp pred");
  }
  return symv(1, z3::ite(r, Z.bv_val(1, 1), Z.bv_val(0, 1)));
}
static Val resize(const Val& v, unsigned pw, bool sign = false) {
  if (v.isAgg || v.w == pw || pw == 0) return v;
  if (v.sym()) {
    if (pw > v.w) return symv(pw, sign ? z3::sext(*v.e, pw - v.w) : z3::zext(*v.e, pw - v.w), v.pobj);
    return symv(pw, v.e->extract(pw - 1, 0), v.pobj);
  }
  if (pw > v.w && sign) return conc(pw, (u128)(__int128)sx(v));
  return conc(pw, v.c);
}
static double asDouble(const Val& v) {
  if (v.w == 32) { float f; uint32_t b = (uint32_t)v.c; memcpy(&f, &b, 4); return f; }
  double d; uint64_t b = (uint64_t)v.c; memcpy(&d, &b, 8); return d;
}
static Val fromDouble(double d, unsigned w) {
  if (w == 32) { float f = (float)d; uint32_t b; memcpy(&b, &f, 4); return conc(32, b); }
  uint64_t b; memcpy(&b, &d, 8); return conc(64, b);
}


// ---- vector helpers (clang occasionally emits short fixed vectors even with the vectorizers off)
static Val mapVec(const Val& a, const std::function<Val(const Val&)>& f) {
  if (!a.isAgg) return f(a);
  Val r; r.isAgg = true;
  for (auto& x : a.agg) r.agg.push_back(f(x));
  return r;
}
static z3::expr flattenBits(const Val& a) {  // element 0 in the low bits
  if (!a.isAgg) return toExpr(a);
  z3::expr e = flattenBits(a.agg[0]);
  for (size_t i = 1; i < a.agg.size(); i++) e = z3::concat(flattenBits(a.agg[i]), e);
  return e;
}
static Val unflattenBits(const z3::expr& e, Type* t, unsigned& lo) {
  if (auto* vt = dyn_cast<FixedVectorType>(t)) {
    Val r; r.isAgg = true;
    for (unsigned i = 0; i < vt->getNumElements(); i++) r.agg.push_back(unflattenBits(e, vt->getElementType(), lo));
    return r;
  }
  unsigned w = widthOf(t);
  Val v = symv(w, e.extract(lo + w - 1, lo));
  lo += w;
  return v;
}

// ---------------------------------------------------------------- interpreter
static std::vector<State> work;
static std::unordered_map<const Constant*, Val> constMemo;
static Val get(Frame& f, const Value* v) {
  if (auto* c = dyn_cast<Constant>(v)) {
    auto it = constMemo.find(c);
    if (it != constMemo.end()) return it->second;
    Val r = constVal(c);
    constMemo[c] = r;
    return r;
  }
  auto it = f.fi->slot.find(v);
  if (it == f.fi->slot.end()) internalError("unbound value");
  return f.regs[it->second];
}
static void setReg(Frame& f, const Value* v, const Val& x) { f.regs[f.fi->slot.at(v)] = x; }
static void branchTo(Frame& f, const BasicBlock* to) {
  f.prev = f.bb;
  f.bb = to;
  f.it = to->begin();
  std::vector<std::pair<const Value*, Val>> vals;
  for (auto& I : *to) {
    auto* ph = dyn_cast<PHINode>(&I);
    if (!ph) break;
    vals.push_back({ph, get(f, ph->getIncomingValueForBlock(f.prev))});
  }
  for (auto& p : vals) setReg(f, p.first, p.second);
  while (isa<PHINode>(*f.it)) ++f.it;
}

// Deterministic partition of the path tree among optShards processes: a state owns the shard range [shLo,shHi);
// at a fork into K alternatives (in a canonical order) the range is split; a process keeps only states whose range
// contains its own shard id.  Once the range has size 1 the whole subtree belongs to that shard.
static bool shardAssign(const State& parent, unsigned j, unsigned K, uint32_t& lo, uint32_t& hi) {
  uint32_t r = parent.shHi - parent.shLo;
  if (r <= 1) { lo = parent.shLo; hi = parent.shHi; return true; }
  if (r >= K) { lo = parent.shLo + (uint64_t)j * r / K; hi = parent.shLo + (uint64_t)(j + 1) * r / K; }
  else { lo = parent.shLo + (j % r); hi = lo + 1; }
  return optShard >= lo && optShard < hi;
}
static void pushFork(State&& o) {
  ST.forks++;
  work.push_back(std::move(o));
}
// Enumerate the feasible values of v (<= optMaxEnum), fork one state per extra value (they re-execute the current
// instruction with v pinned), pin the first value on this state and return it.
static uint64_t concretize(State& s, const Val& v, const char* what) {
  if (!v.sym()) return (uint64_t)v.c;
  z3::expr e = applyPins(s, *v.e);
  { uint64_t x; if (e.is_numeral() && e.is_numeral_u64(x)) return x; }
  std::vector<uint64_t> vals;
  std::vector<std::vector<uint64_t>> models;
  z3::expr excl = Z.bool_val(true);
  {
    z3::expr r = evalUnder(s, e);
    uint64_t x = 0;
    if (!r.is_numeral_u64(x)) internalError("concretize: eval");
    vals.push_back(x);
    models.push_back(s.model);
    excl = e != Z.bv_val(x, v.w);
  }
  while (true) {
    std::vector<uint64_t> m;
    if (!feasible(s, excl, &m)) break;
    State tmp;  // evaluate e under m
    uint64_t x;
    {
      std::vector<uint64_t> saved = s.model;
      s.model = m;
      z3::expr r = evalUnder(s, e);
      s.model = saved;
      if (!r.is_numeral_u64(x)) internalError("concretize: eval2");
    }
    vals.push_back(x);
    models.push_back(m);
    if (vals.size() > optMaxEnum) bound(std::string("symbolic ") + what + " with more than " + std::to_string(optMaxEnum) + " feasible values at " + siteOf(s));
    excl = excl && (e != Z.bv_val(x, v.w));
  }
  if (vals.size() == 1) return vals[0];
  // canonical order of the alternatives (shard assignment must not depend on solver models)
  std::vector<size_t> ord(vals.size());
  for (size_t i = 0; i < ord.size(); i++) ord[i] = i;
  std::sort(ord.begin(), ord.end(), [&](size_t a, size_t b) { return vals[a] < vals[b]; });
  int mine = -1;
  uint32_t mlo = 0, mhi = 0;
  State base = s;
  for (size_t j = 0; j < ord.size(); j++) {
    uint32_t lo, hi;
    if (!shardAssign(base, (unsigned)j, (unsigned)ord.size(), lo, hi)) continue;
    size_t k = ord[j];
    if (mine < 0) { mine = (int)k; mlo = lo; mhi = hi; continue; }
    State o = base;
    addConstraint(o, e == Z.bv_val(vals[k], v.w));
    o.model = models[k];
    o.shLo = lo; o.shHi = hi;
    --o.st.back().it;
    pushFork(std::move(o));
  }
  if (mine < 0) throw PathEnd{"othershard"};
  addConstraint(s, e == Z.bv_val(vals[mine], v.w));
  s.model = models[mine];
  s.shLo = mlo; s.shHi = mhi;
  return vals[mine];
}
static uint64_t concPtr(State& s, const Val& v) { return v.sym() ? concretize(s, v, "pointer") : (uint64_t)v.c; }

static void memcopy(State& s, uint64_t d, uint64_t sr, uint64_t n) {
  if (n == 0) return;
  robj(s, sr, n, "memcpy src");
  robj(s, d, n, "memcpy dst");
  const Obj* so = s.mem[sr >> 32].get();
  uint64_t soff = sr & 0xffffffffu, doff = d & 0xffffffffu;
  std::vector<uint8_t> tb(so->b.begin() + soff, so->b.begin() + soff + n);
  std::vector<std::pair<uint64_t, std::shared_ptr<z3::expr>>> ts;
  for (auto it = so->s.lower_bound(soff); it != so->s.end() && it->first < soff + n; ++it) ts.push_back({it->first - soff, it->second});
  std::vector<std::pair<uint64_t, std::pair<unsigned, std::shared_ptr<z3::expr>>>> tw;
  for (auto it = so->words.lower_bound(soff); it != so->words.end() && it->first < soff + n; ++it)
    if (it->first + (it->second.first + 7) / 8 <= soff + n) tw.push_back({it->first - soff, it->second});
  Obj& o = wobj(s, d >> 32);
  dropWords(o, doff, n);
  for (auto& p : tw) o.words[doff + p.first] = p.second;
  for (uint64_t i = 0; i < n; i++) o.b[doff + i] = tb[i];
  if (!o.s.empty()) {
    auto a = o.s.lower_bound(doff);
    auto b = o.s.lower_bound(doff + n);
    o.s.erase(a, b);
  }
  for (auto& p : ts) o.s[doff + p.first] = p.second;
}
static void finishPath(State& s, const std::string& end);
static void doCall(State& s, const CallInst* ci, const Function* F, std::vector<Val>& args);

// branch on a symbolic 1-bit value; returns taken side for s, forks the other side if feasible
static bool forkOn(State& s, const z3::expr& t0, std::function<void(State&)> onFalse) {
  z3::expr t = applyPins(s, t0);
  if (t.is_true()) return true;
  if (t.is_false()) { onFalse(s); return false; }
  z3::expr nt = !t;
  bool curTrue = evalUnder(s, t).is_true();
  std::vector<uint64_t> m;
  bool other = feasible(s, curTrue ? nt : t, &m);
  if (!other) {
    if (!curTrue) onFalse(s);
    return curTrue;
  }
  std::vector<uint64_t> mT = curTrue ? s.model : m, mF = curTrue ? m : s.model;
  uint32_t tl, th, fl, fh;
  bool oT = shardAssign(s, 0, 2, tl, th), oF = shardAssign(s, 1, 2, fl, fh);
  if (!oT && !oF) throw PathEnd{"othershard"};
  if (oT && oF) {
    State o = s;
    addConstraint(o, nt);
    o.model = mF; o.shLo = fl; o.shHi = fh;
    onFalse(o);
    pushFork(std::move(o));
  }
  if (oT) {
    addConstraint(s, t);
    s.model = mT; s.shLo = tl; s.shHi = th;
    return true;
  }
  addConstraint(s, nt);
  s.model = mF; s.shLo = fl; s.shHi = fh;
  onFalse(s);
  return false;
}

static void runPath(State s) {
  gCur = &s;
  try {
    while (true) {
      Frame& f = s.st.back();
      const Instruction& I = *f.it;
      ++f.it;
      s.steps++;
      ST.insts++;
      if (s.steps > optMaxSteps) bound("step limit " + std::to_string(optMaxSteps) + " on a path in " + f.F->getName().str());
      switch (I.getOpcode()) {
        case Instruction::Alloca: {
          auto* ai = cast<AllocaInst>(&I);
          uint64_t n = concretize(s, get(f, ai->getArraySize()), "alloca size");
          uint32_t id = newObj(s, DL->getTypeAllocSize(ai->getAllocatedType()) * n, false, "alloca");
          s.st.back().allocas.push_back(id);
          setReg(s.st.back(), &I, conc(64, mkptr(id, 0)));
          break;
        }
        case Instruction::Load: {
          auto* li = cast<LoadInst>(&I);
          Val p = get(f, li->getPointerOperand());
          Val r = loadTy(s, p, I.getType());
          setReg(s.st.back(), &I, r);
          break;
        }
        case Instruction::Store: {
          auto* si = cast<StoreInst>(&I);
          Val p = get(f, si->getPointerOperand());
          Val v = get(f, si->getValueOperand());
          storeTy(s, p, si->getValueOperand()->getType(), v);
          break;
        }
        case Instruction::GetElementPtr: {
          auto* gi = cast<GetElementPtrInst>(&I);
          Val base = get(f, gi->getPointerOperand());
          // constant part + symbolic part
          int64_t coff = 0;
          z3::expr soff = Z.bv_val(0, 64);
          bool anySym = false;
          Type* cur = gi->getSourceElementType();
          bool first = true;
          for (auto it = gi->idx_begin(); it != gi->idx_end(); ++it) {
            Val iv = get(f, *it);
            uint64_t scale;
            if (first) { scale = DL->getTypeAllocSize(cur); first = false; }
            else if (auto* st = dyn_cast<StructType>(cur)) {
              if (iv.sym()) internalError("symbolic struct index");
              coff += DL->getStructLayout(st)->getElementOffset((unsigned)iv.c);
              cur = st->getElementType((unsigned)iv.c);
              continue;
            } else if (auto* at = dyn_cast<ArrayType>(cur)) { cur = at->getElementType(); scale = DL->getTypeAllocSize(cur); }
            else if (auto* vt = dyn_cast<FixedVectorType>(cur)) { cur = vt->getElementType(); scale = DL->getTypeAllocSize(cur); }
            else internalError("gep into scalar");
            if (iv.sym()) {
              anySym = true;
              z3::expr ie = iv.w < 64 ? z3::sext(*iv.e, 64 - iv.w) : (iv.w > 64 ? iv.e->extract(63, 0) : *iv.e);
              { unsigned k; soff = soff + (isPow2(scale, k) ? shlConst(ie, k) : ie * Z.bv_val(scale, 64)); }
            } else
              coff += sx(iv) * (int64_t)scale;
          }
          if (!anySym && !base.sym())
            setReg(f, &I, conc(64, (uint64_t)base.c + coff));
          else {
            uint32_t po = base.sym() ? base.pobj : (uint32_t)((uint64_t)base.c >> 32);
            setReg(f, &I, symv(64, toExpr(base) + soff + Z.bv_val((uint64_t)coff, 64), po));
          }
          break;
        }
        case Instruction::BitCast: case Instruction::PtrToInt: case Instruction::IntToPtr: case Instruction::AddrSpaceCast: {
          Val v = get(f, I.getOperand(0));
          if (v.isAgg || I.getType()->isVectorTy()) {
            if (v.isAgg && I.getType()->isVectorTy() && cast<FixedVectorType>(I.getType())->getNumElements() == v.agg.size()) { setReg(f, &I, v); break; }
            unsigned lo = 0;
            setReg(f, &I, unflattenBits(flattenBits(v), I.getType(), lo));
            break;
          }
          unsigned dw = widthOf(I.getType());
          setReg(f, &I, resize(v, dw));
          break;
        }
        case Instruction::ZExt: case Instruction::SExt: case Instruction::Trunc: {
          Val v = get(f, I.getOperand(0));
          Type* et = I.getType()->isVectorTy() ? cast<FixedVectorType>(I.getType())->getElementType() : I.getType();
          unsigned dw = widthOf(et);
          bool sg = I.getOpcode() == Instruction::SExt, tr = I.getOpcode() == Instruction::Trunc;
          setReg(f, &I, mapVec(v, [&](const Val& x) { Val y = x; if (tr) y.pobj = 0; return resize(y, dw, sg); }));
          break;
        }
        case Instruction::UIToFP: case Instruction::SIToFP: {
          Val v = get(f, I.getOperand(0));
          if (v.sym()) v = conc(v.w, concretize(s, v, "int->float operand"));
          double d = I.getOpcode() == Instruction::UIToFP ? (double)(uint64_t)v.c : (double)sx(v);
          setReg(f, &I, fromDouble(d, widthOf(I.getType())));
          break;
        }
        case Instruction::FPToUI: case Instruction::FPToSI: {
          Val v = get(f, I.getOperand(0));
          if (v.sym()) v = conc(v.w, concretize(s, v, "float operand"));
          double d = asDouble(v);
          unsigned dw = widthOf(I.getType());
          setReg(f, &I, conc(dw, I.getOpcode() == Instruction::FPToUI ? (u128)(uint64_t)d : (u128)(__int128)(int64_t)d));
          break;
        }
        case Instruction::FPExt: case Instruction::FPTrunc: {
          Val v = get(f, I.getOperand(0));
          if (v.sym()) v = conc(v.w, concretize(s, v, "float operand"));
          setReg(f, &I, fromDouble(asDouble(v), widthOf(I.getType())));
          break;
        }
        case Instruction::FNeg: {
          Val v = get(f, I.getOperand(0));
          if (v.sym()) v = conc(v.w, concretize(s, v, "float operand"));
          setReg(f, &I, fromDouble(-asDouble(v), v.w));
          break;
        }
        case Instruction::FAdd: case Instruction::FSub: case Instruction::FMul: case Instruction::FDiv: case Instruction::FRem: {
          Val a = get(f, I.getOperand(0)), b = get(f, I.getOperand(1));
          if (a.sym()) a = conc(a.w, concretize(s, a, "float operand"));
          if (b.sym()) b = conc(b.w, concretize(s, b, "float operand"));
          double x = asDouble(a), y = asDouble(b), r = 0;
          switch (I.getOpcode()) {
            case Instruction::FAdd: r = x + y; break;
            case Instruction::FSub: r = x - y; break;
            case Instruction::FMul: r = x * y; break;
            case Instruction::FDiv: r = x / y; break;
            default: r = fmod(x, y);
          }
          if (a.w == 32) r = (float)r;
          setReg(f, &I, fromDouble(r, a.w));
          break;
        }
        case Instruction::FCmp: {
          auto* fc = cast<FCmpInst>(&I);
          Val a = get(f, I.getOperand(0)), b = get(f, I.getOperand(1));
          if (a.sym()) a = conc(a.w, concretize(s, a, "float operand"));
          if (b.sym()) b = conc(b.w, concretize(s, b, "float operand"));
          double x = asDouble(a), y = asDouble(b);
          bool un = std::isnan(x) || std::isnan(y), r = false;
          switch (fc->getPredicate()) {
            case CmpInst::FCMP_OEQ: r = !un && x == y; break;
            case CmpInst::FCMP_OGT: r = !un && x > y; break;
            case CmpInst::FCMP_OGE: r = !un && x >= y; break;
            case CmpInst::FCMP_OLT: r = !un && x < y; break;
            case CmpInst::FCMP_OLE: r = !un && x <= y; break;
            case CmpInst::FCMP_ONE: r = !un && x != y; break;
            case CmpInst::FCMP_ORD: r = !un; break;
            case CmpInst::FCMP_UNO: r = un; break;
            case CmpInst::FCMP_UEQ: r = un || x == y; break;
            case CmpInst::FCMP_UGT: r = un || x > y; break;
            case CmpInst::FCMP_UGE: r = un || x >= y; break;
            case CmpInst::FCMP_ULT: r = un || x < y; break;
            case CmpInst::FCMP_ULE: r = un || x <= y; break;
            case CmpInst::FCMP_UNE: r = un || x != y; break;
            case CmpInst::FCMP_TRUE: r = true; break;
            default: r = false;
          }
          setReg(f, &I, conc(1, r));
          break;
        }
        case Instruction::Add: case Instruction::Sub: case Instruction::Mul: case Instruction::UDiv: case Instruction::SDiv:
        case Instruction::URem: case Instruction::SRem: case Instruction::Shl: case Instruction::LShr: case Instruction::AShr:
        case Instruction::And: case Instruction::Or: case Instruction::Xor: {
          Val a = get(f, I.getOperand(0)), b = get(f, I.getOperand(1));
          if (a.isAgg) {  // vector op, element-wise
            Val r; r.isAgg = true;
            for (size_t i = 0; i < a.agg.size(); i++) r.agg.push_back(binop(I.getOpcode(), a.agg[i], b.agg[i]));
            setReg(f, &I, r);
            break;
          }
          unsigned op = I.getOpcode();
          if ((op == Instruction::UDiv || op == Instruction::SDiv || op == Instruction::URem || op == Instruction::SRem)) {
            if (!b.sym()) { if (b.c == 0) fatalViolation(s, "divzero", 0); }
            else {
              z3::expr bad = *b.e == bvval(0, b.w);
              if (violation(s, "divzero", 0, &bad)) {
                std::vector<uint64_t> m;
                z3::expr ok = !bad;
                if (!feasible(s, ok, &m)) throw PathEnd{"violation:divzero"};
                addConstraint(s, ok);
                s.model = m;
              }
            }
          }
          setReg(s.st.back(), &I, binop(op, a, b));
          break;
        }
        case Instruction::ICmp: {
          auto* ic = cast<ICmpInst>(&I);
          Val a = get(f, ic->getOperand(0)), b = get(f, ic->getOperand(1));
          if (a.isAgg) {
            Val r; r.isAgg = true;
            for (size_t i = 0; i < a.agg.size(); i++) r.agg.push_back(icmp(ic->getPredicate(), a.agg[i], b.agg[i]));
            setReg(f, &I, r);
            break;
          }
          setReg(f, &I, icmp(ic->getPredicate(), a, b));
          break;
        }
        case Instruction::Select: {
          auto* se = cast<SelectInst>(&I);
          Val c = get(f, se->getCondition()), a = get(f, se->getTrueValue()), b = get(f, se->getFalseValue());
          if (c.isAgg) {
            Val r; r.isAgg = true;
            for (size_t i = 0; i < c.agg.size(); i++) {
              const Val& ci = c.agg[i];
              if (!ci.sym()) r.agg.push_back(ci.c ? a.agg[i] : b.agg[i]);
              else r.agg.push_back(symv(a.agg[i].w, z3::ite(asBool(ci), toExpr(a.agg[i]), toExpr(b.agg[i]))));
            }
            setReg(f, &I, r);
            break;
          }
          if (!c.sym()) { setReg(f, &I, c.c ? a : b); break; }
          if (a.isAgg && I.getType()->isVectorTy()) {
            Val r; r.isAgg = true;
            for (size_t i = 0; i < a.agg.size(); i++) r.agg.push_back(symv(a.agg[i].w, z3::ite(asBool(c), toExpr(a.agg[i]), toExpr(b.agg[i]))));
            setReg(f, &I, r);
            break;
          }
          bool ptr = I.getType()->isPointerTy();
          uint32_t oa = a.sym() ? a.pobj : (uint32_t)((uint64_t)a.c >> 32), ob = b.sym() ? b.pobj : (uint32_t)((uint64_t)b.c >> 32);
          if (a.isAgg || (ptr && (oa != ob || oa == 0))) {
            const Instruction* IP = &I;
            Val bb = b;
            bool t = forkOn(s, asBool(c), [IP, bb](State& o) { setReg(o.st.back(), IP, bb); });
            if (t) setReg(s.st.back(), &I, a);
            break;
          }
          setReg(f, &I, symv(a.w, z3::ite(asBool(c), toExpr(a), toExpr(b)), ptr ? oa : 0));
          break;
        }
        case Instruction::ExtractValue: {
          auto* ev = cast<ExtractValueInst>(&I);
          Val a = get(f, ev->getAggregateOperand());
          for (unsigned k : ev->indices()) { Val t = a.agg[k]; a = t; }
          setReg(f, &I, a);
          break;
        }
        case Instruction::InsertValue: {
          auto* iv = cast<InsertValueInst>(&I);
          Val a = get(f, iv->getAggregateOperand());
          Val v = get(f, iv->getInsertedValueOperand());
          Val* p = &a;
          for (unsigned k : iv->indices()) p = &p->agg[k];
          *p = v;
          setReg(f, &I, a);
          break;
        }
        case Instruction::ExtractElement: {
          Val a = get(f, I.getOperand(0)), k = get(f, I.getOperand(1));
          if (k.sym()) bound("symbolic vector index");
          setReg(f, &I, a.agg[(size_t)k.c]);
          break;
        }
        case Instruction::InsertElement: {
          Val a = get(f, I.getOperand(0)), v = get(f, I.getOperand(1)), k = get(f, I.getOperand(2));
          if (k.sym()) bound("symbolic vector index");
          a.agg[(size_t)k.c] = v;
          setReg(f, &I, a);
          break;
        }
        case Instruction::ShuffleVector: {
          auto* sv = cast<ShuffleVectorInst>(&I);
          Val a = get(f, I.getOperand(0)), b = get(f, I.getOperand(1));
          Val r; r.isAgg = true;
          for (int m : sv->getShuffleMask()) {
            if (m < 0) r.agg.push_back(zeroOf(cast<FixedVectorType>(I.getType())->getElementType()));
            else if ((size_t)m < a.agg.size()) r.agg.push_back(a.agg[m]);
            else r.agg.push_back(b.agg[m - a.agg.size()]);
          }
          setReg(f, &I, r);
          break;
        }
        case Instruction::Freeze: setReg(f, &I, get(f, I.getOperand(0))); break;
        case Instruction::Fence: break;
        case Instruction::Br: {
          auto* br = cast<BranchInst>(&I);
          if (br->isUnconditional()) { branchTo(f, br->getSuccessor(0)); break; }
          Val c = get(f, br->getCondition());
          if (!c.sym()) { branchTo(f, br->getSuccessor(c.c ? 0 : 1)); break; }
          const BasicBlock* fb = br->getSuccessor(1);
          bool t = forkOn(s, asBool(c), [fb](State& o) { branchTo(o.st.back(), fb); });
          if (t) branchTo(s.st.back(), br->getSuccessor(0));
          break;
        }
        case Instruction::Ret: {
          auto* ri = cast<ReturnInst>(&I);
          Val rv;
          bool has = ri->getReturnValue() != nullptr;
          if (has) rv = get(f, ri->getReturnValue());
          for (uint32_t a : f.allocas) s.mem.erase(a);
          const CallInst* cs = f.callsite;
          s.st.pop_back();
          if (s.st.empty()) {
            if (s.pending.empty()) { finishPath(s, "ret"); return; }
            const Function* nf = s.pending.back();
            s.pending.pop_back();
            Frame fr;
            fr.F = nf; fr.fi = &infoOf(nf); fr.regs.resize(fr.fi->n); fr.bb = &nf->getEntryBlock(); fr.it = fr.bb->begin();
            s.st.push_back(std::move(fr));
            break;
          }
          if (has && cs && !cs->getType()->isVoidTy()) setReg(s.st.back(), cs, resize(rv, widthOf(cs->getType())));
          break;
        }
        case Instruction::Unreachable: throw PathEnd{"infeasible"};  // reached only after a noreturn native
        case Instruction::Call: {
          auto* ci = cast<CallInst>(&I);
          const Function* cf = ci->getCalledFunction();
          if (!cf && isa<InlineAsm>(ci->getCalledOperand())) break;  // compiler barriers
          std::vector<Val> args;
          for (unsigned a = 0; a < ci->arg_size(); a++) {
            if (ci->getArgOperand(a)->getType()->isMetadataTy()) args.push_back(conc(1, 0));
            else args.push_back(get(f, ci->getArgOperand(a)));
          }
          if (!cf) {
            Value* co = ci->getCalledOperand()->stripPointerCasts();
            if (auto* ff = dyn_cast<Function>(co)) cf = ff;
            else {
              uint64_t fp = concPtr(s, get(s.st.back(), ci->getCalledOperand()));
              auto it = fobj.find(fp >> 32);
              if (it == fobj.end() || (fp & 0xffffffffu)) fatalViolation(s, "fnptr", 0);
              cf = it->second;
            }
          }
          doCall(s, ci, cf, args);
          break;
        }
        default: {
          std::string str; raw_string_ostream os(str); I.print(os);
          bound("unsupported instruction " + str);
        }
      }
    }
  } catch (PathEnd& pe) {
    finishPath(s, pe.kind);
  }
}

// ---------------------------------------------------------------- calls, natives, intrinsics
static void enterFunction(State& s, const CallInst* ci, const Function* F, std::vector<Val>& args) {
  if (s.st.size() > 400) bound("call depth > 400");
  Frame nf;
  nf.F = F;
  nf.fi = &infoOf(F);
  nf.regs.resize(nf.fi->n);
  nf.bb = &F->getEntryBlock();
  nf.it = nf.bb->begin();
  nf.callsite = ci;
  unsigned i = 0;
  if (args.size() < F->arg_size()) internalError("too few arguments calling " + F->getName().str());
  for (auto& a : F->args()) {
    nf.regs[i] = resize(args[i], widthOf(a.getType()));
    i++;
  }
  s.st.push_back(std::move(nf));
}
static Val symIte(const z3::expr& c, const Val& a, const Val& b) { return symv(a.w, z3::ite(c, toExpr(a), toExpr(b))); }
static Val boolVal(const z3::expr& b) { return symv(1, z3::ite(b, Z.bv_val(1, 1), Z.bv_val(0, 1))); }
static void assumeTrue(State& s, const z3::expr& e) {
  std::vector<uint64_t> m;
  if (!feasible(s, e, &m)) throw PathEnd{"infeasible"};
  addConstraint(s, e);
  s.model = m;
}
static Val cmpBytes(State& s, uint64_t a, uint64_t b, uint64_t n, bool eqOnly) {
  // returns i32: 0 equal, <0 / >0 by first differing byte (unsigned compare)
  if (n == 0) return conc(32, 0);
  robj(s, a, n, "memcmp");
  robj(s, b, n, "memcmp");
  z3::expr res = Z.bv_val(0, 32);
  bool anySym = false;
  std::vector<Val> xa, xb;
  for (uint64_t i = 0; i < n; i++) {
    xa.push_back(loadInt(s, a + i, 8));
    xb.push_back(loadInt(s, b + i, 8));
    if (xa.back().sym() || xb.back().sym()) anySym = true;
  }
  if (!anySym) {
    for (uint64_t i = 0; i < n; i++)
      if (xa[i].c != xb[i].c) return conc(32, xa[i].c < xb[i].c ? (uint32_t)-1 : 1);
    return conc(32, 0);
  }
  for (int64_t i = n - 1; i >= 0; i--) {
    if (!xa[i].sym() && !xb[i].sym()) {
      if (xa[i].c != xb[i].c) res = Z.bv_val(xa[i].c < xb[i].c ? (uint32_t)-1 : 1u, 32);
      continue;
    }
    z3::expr x = toExpr(xa[i]), y = toExpr(xb[i]);
    res = z3::ite(x == y, res, z3::ite(z3::ult(x, y), Z.bv_val((uint32_t)-1, 32), Z.bv_val(1, 32)));
  }
  (void)eqOnly;
  return symv(32, res);
}
static void doCall(State& s, const CallInst* ci, const Function* F, std::vector<Val>& args) {
  StringRef n = F->getName();
  auto ret = [&](const Val& v) { if (!ci->getType()->isVoidTy()) setReg(s.st.back(), ci, resize(v, widthOf(ci->getType()))); };
  if (F->isIntrinsic()) {
    switch (F->getIntrinsicID()) {
      case Intrinsic::lifetime_start: case Intrinsic::lifetime_end: case Intrinsic::dbg_declare: case Intrinsic::dbg_value:
      case Intrinsic::dbg_label: case Intrinsic::experimental_noalias_scope_decl: case Intrinsic::assume: case Intrinsic::donothing:
      case Intrinsic::prefetch: case Intrinsic::invariant_end: case Intrinsic::stackrestore: case Intrinsic::var_annotation:
        return;
      case Intrinsic::invariant_start: case Intrinsic::stacksave: ret(conc(64, 0)); return;
      case Intrinsic::memcpy: case Intrinsic::memmove: {
        uint64_t ln = concretize(s, args[2], "memcpy length");
        uint64_t d = concPtr(s, args[0]), sr = concPtr(s, args[1]);
        memcopy(s, d, sr, ln);
        return;
      }
      case Intrinsic::memset: {
        uint64_t ln = concretize(s, args[2], "memset length");
        uint64_t d = concPtr(s, args[0]);
        if (ln) robj(s, d, ln, "memset");
        for (uint64_t i = 0; i < ln; i++) storeInt(s, d + i, args[1]);
        return;
      }
      case Intrinsic::trap: fatalViolation(s, "trap", 0);
      case Intrinsic::expect: ret(args[0]); return;
      case Intrinsic::is_constant: ret(conc(1, 0)); return;
      case Intrinsic::objectsize: ret(conc(widthOf(ci->getType()), args[1].c ? 0 : ~(u128)0)); return;
      case Intrinsic::umin: case Intrinsic::umax: case Intrinsic::smin: case Intrinsic::smax: {
        CmpInst::Predicate p = F->getIntrinsicID() == Intrinsic::umin ? CmpInst::ICMP_ULT : F->getIntrinsicID() == Intrinsic::umax ? CmpInst::ICMP_UGT
                               : F->getIntrinsicID() == Intrinsic::smin ? CmpInst::ICMP_SLT : CmpInst::ICMP_SGT;
        Val c = icmp(p, args[0], args[1]);
        if (!c.sym()) ret(c.c ? args[0] : args[1]); else ret(symIte(asBool(c), args[0], args[1]));
        return;
      }
      case Intrinsic::abs: {
        Val neg = binop(Instruction::Sub, conc(args[0].w, 0), args[0]);
        Val c = icmp(CmpInst::ICMP_SLT, args[0], conc(args[0].w, 0));
        if (!c.sym()) ret(c.c ? neg : args[0]); else ret(symIte(asBool(c), neg, args[0]));
        return;
      }
      case Intrinsic::usub_sat: {
        Val c = icmp(CmpInst::ICMP_UGT, args[0], args[1]);
        Val d = binop(Instruction::Sub, args[0], args[1]);
        if (!c.sym()) ret(c.c ? d : conc(d.w, 0)); else ret(symIte(asBool(c), d, conc(d.w, 0)));
        return;
      }
      case Intrinsic::uadd_sat: {
        Val d = binop(Instruction::Add, args[0], args[1]);
        Val c = icmp(CmpInst::ICMP_ULT, d, args[0]);
        if (!c.sym()) ret(c.c ? conc(d.w, ~(u128)0) : d); else ret(symIte(asBool(c), conc(d.w, ~(u128)0), d));
        return;
      }
      case Intrinsic::uadd_with_overflow: case Intrinsic::usub_with_overflow: case Intrinsic::umul_with_overflow:
      case Intrinsic::sadd_with_overflow: case Intrinsic::ssub_with_overflow: case Intrinsic::smul_with_overflow: {
        unsigned w = args[0].w;
        auto id = F->getIntrinsicID();
        bool sg = id == Intrinsic::sadd_with_overflow || id == Intrinsic::ssub_with_overflow || id == Intrinsic::smul_with_overflow;
        unsigned op = (id == Intrinsic::uadd_with_overflow || id == Intrinsic::sadd_with_overflow) ? Instruction::Add
                      : (id == Intrinsic::usub_with_overflow || id == Intrinsic::ssub_with_overflow) ? Instruction::Sub : Instruction::Mul;
        Val r = binop(op, args[0], args[1]);
        unsigned ww = 2 * w;
        Val wa = resize(args[0], ww, sg), wb = resize(args[1], ww, sg);
        Val wr = binop(op, wa, wb);
        Val back = resize(r, ww, sg);
        Val ov = icmp(CmpInst::ICMP_NE, wr, back);
        Val out; out.isAgg = true; out.agg.push_back(r); out.agg.push_back(ov);
        setReg(s.st.back(), ci, out);
        return;
      }
      case Intrinsic::bswap: {
        unsigned w = args[0].w;
        if (!args[0].sym()) { u128 r = 0; for (unsigned i = 0; i < w / 8; i++) r |= ((args[0].c >> (8 * i)) & 0xff) << (w - 8 - 8 * i); ret(conc(w, r)); }
        else { z3::expr e = args[0].e->extract(7, 0); for (unsigned i = 1; i < w / 8; i++) e = z3::concat(e, args[0].e->extract(8 * i + 7, 8 * i)); ret(symv(w, e)); }
        return;
      }
      case Intrinsic::fshl: case Intrinsic::fshr: {
        unsigned w = args[0].w;
        Val sh = binop(Instruction::URem, args[2], conc(w, w));
        Val inv = binop(Instruction::Sub, conc(w, w), sh);
        bool l = F->getIntrinsicID() == Intrinsic::fshl;
        // fshl: (a << sh) | (b >> (w-sh)) ; with sh==0 -> a.  our Shl/LShr give 0 for shift>=w, as needed
        Val r = l ? binop(Instruction::Or, binop(Instruction::Shl, args[0], sh), binop(Instruction::LShr, args[1], inv))
                  : binop(Instruction::Or, binop(Instruction::Shl, args[0], inv), binop(Instruction::LShr, args[1], sh));
        ret(r);
        return;
      }
      case Intrinsic::ctlz: case Intrinsic::cttz: case Intrinsic::ctpop: {
        unsigned w = args[0].w;
        auto id = F->getIntrinsicID();
        if (!args[0].sym()) {
          unsigned k = 0;
          if (id == Intrinsic::ctlz) { for (int i = w - 1; i >= 0; i--) { if ((args[0].c >> i) & 1) break; k++; } }
          else if (id == Intrinsic::cttz) { for (unsigned i = 0; i < w; i++) { if ((args[0].c >> i) & 1) break; k++; } }
          else { for (unsigned i = 0; i < w; i++) k += (args[0].c >> i) & 1; }
          ret(conc(w, k));
        } else {
          z3::expr x = *args[0].e;
          z3::expr r = Z.bv_val(id == Intrinsic::ctpop ? 0 : w, w);
          if (id == Intrinsic::ctlz) { for (unsigned i = 0; i < w; i++) r = z3::ite(x.extract(i, i) == Z.bv_val(1, 1), Z.bv_val(w - 1 - i, w), r); }
          else if (id == Intrinsic::cttz) { for (int i = w - 1; i >= 0; i--) r = z3::ite(x.extract(i, i) == Z.bv_val(1, 1), Z.bv_val(i, w), r); }
          else { for (unsigned i = 0; i < w; i++) r = r + z3::zext(x.extract(i, i), w - 1); }
          ret(symv(w, r));
        }
        return;
      }
      case Intrinsic::fabs: case Intrinsic::floor: case Intrinsic::ceil: case Intrinsic::sqrt: case Intrinsic::trunc: case Intrinsic::round: {
        if (args[0].sym()) bound("symbolic float intrinsic");
        double x = asDouble(args[0]), r = 0;
        switch (F->getIntrinsicID()) { case Intrinsic::fabs: r = fabs(x); break; case Intrinsic::floor: r = floor(x); break; case Intrinsic::ceil: r = ceil(x); break;
          case Intrinsic::sqrt: r = sqrt(x); break; case Intrinsic::trunc: r = trunc(x); break; default: r = round(x); }
        ret(fromDouble(r, args[0].w));
        return;
      }
      case Intrinsic::vector_reduce_or: case Intrinsic::vector_reduce_and: case Intrinsic::vector_reduce_add: case Intrinsic::vector_reduce_xor:
      case Intrinsic::vector_reduce_mul: {
        auto id = F->getIntrinsicID();
        unsigned op = id == Intrinsic::vector_reduce_or ? Instruction::Or : id == Intrinsic::vector_reduce_and ? Instruction::And
                      : id == Intrinsic::vector_reduce_add ? Instruction::Add : id == Intrinsic::vector_reduce_xor ? Instruction::Xor : Instruction::Mul;
        Val r = args[0].agg[0];
        for (size_t i = 1; i < args[0].agg.size(); i++) r = binop(op, r, args[0].agg[i]);
        ret(r);
        return;
      }
      default: bound("unsupported intrinsic " + n.str());
    }
  }
  if (optHavocSha && !optConcrete && n == "_ZN14altintegration6sha256EPhPKhj") {
    uint64_t ln = concretize(s, args[2], "sha256 length");
    uint64_t in = concPtr(s, args[1]), out = concPtr(s, args[0]);
    bool anySym = false;
    if (ln) robj(s, in, ln, "sha256");
    for (uint64_t i = 0; i < ln && !anySym; i++) anySym = loadInt(s, in + i, 8).sym();
    if (anySym) {
      robj(s, out, 32, "sha256");
      for (unsigned i = 0; i < 32; i++) {
        uint32_t id = s.inputs.size();
        std::string nm = "in" + std::to_string(id) + "_digest";
        z3::expr v = Z.bv_const(nm.c_str(), 8);
        inputIdOfAst[Z3_get_ast_id(Z, v)] = id;
        varsMemo[Z3_get_ast_id(Z, v)] = std::vector<uint32_t>{id};
        keepAlive.push_back(v);
        s.inputs.push_back({nm, 8, v});
        storeInt(s, out + i, symv(8, v));
      }
      ST.maxInputs = std::max<uint64_t>(ST.maxInputs, s.inputs.size());
      return;
    }
  }
  if (!F->isDeclaration()) { enterFunction(s, ci, F, args); return; }
  // ---- natives
  if (n == "_Znwm" || n == "_Znam" || n == "malloc" || n == "_ZnwmRKSt9nothrow_t" || n == "_ZnamRKSt9nothrow_t") {
    uint64_t sz = concretize(s, args[0], "allocation size");
    if (sz > (64u << 20)) bound("allocation larger than 64 MiB");
    ret(conc(64, mkptr(newObj(s, sz, true, "heap"), 0)));
    return;
  }
  if (n == "calloc") {
    uint64_t sz = concretize(s, args[0], "allocation size") * concretize(s, args[1], "allocation size");
    ret(conc(64, mkptr(newObj(s, sz, true, "heap"), 0)));
    return;
  }
  if (n == "_ZdlPv" || n == "_ZdaPv" || n == "free" || n == "_ZdlPvm" || n == "_ZdaPvm") {
    uint64_t p = concPtr(s, args[0]);
    if (p == 0) return;
    auto it = s.mem.find(p >> 32);
    if (it == s.mem.end() || !it->second->heap || (p & 0xffffffffu)) fatalViolation(s, "free", 0);
    if (it->second->freed) fatalViolation(s, "free", 1);
    wobj(s, p >> 32).freed = true;
    return;
  }
  if (n.startswith("nondet_")) {
    unsigned w = widthOf(F->getReturnType());
    uint32_t id = s.inputs.size();
    if (optConcrete) { ret(conc(w, id < concVector.size() ? concVector[id] : 0)); s.inputs.push_back({n.str(), w, Z.bv_val(0, w)}); return; }
    std::string nm = "in" + std::to_string(id) + "_" + n.str().substr(7);
    z3::expr v = Z.bv_const(nm.c_str(), w);
    inputIdOfAst[Z3_get_ast_id(Z, v)] = id;
    varsMemo[Z3_get_ast_id(Z, v)] = std::vector<uint32_t>{id};
    keepAlive.push_back(v);
    s.inputs.push_back({nm, w, v});
    ST.maxInputs = std::max<uint64_t>(ST.maxInputs, s.inputs.size());
    ret(symv(w, v));
    return;
  }
  if (n == "__verif_assume") {
    Val c = args[0];
    if (!c.sym()) { if (!c.c) throw PathEnd{"infeasible"}; return; }
    assumeTrue(s, asBool(c));
    return;
  }
  if (n == "__verif_check") {
    Val c = args[0];
    if (args[1].sym()) args[1] = conc(args[1].w, concretize(s, args[1], "check id"));
    long id = (long)sx(args[1]);
    if (!c.sym()) {
      if (!c.c) { s.failedChecks.push_back((int)id); fatalViolation(s, "check", id); }
      return;
    }
    z3::expr bad = !asBool(c);
    if (violation(s, "check", id, &bad)) {
      if (optConcrete) internalError("symbolic in concrete mode");
      assumeTrue(s, asBool(c));  // continue with the inputs on which the check holds
    }
    return;
  }
  if (n == "__verif_cover") { Val a = args[0]; if (a.sym()) a = conc(a.w, concretize(s, a, "cover id")); s.covers.push_back((int)sx(a)); return; }
  if (n == "__verif_observe") { s.observes.push_back(args[0]); return; }
  if (n == "__verif_concretize") { uint64_t v = concretize(s, args[0], "value (explicit case split)"); ret(conc(64, v)); return; }
  if (n == "__verif_expect_throw") { s.expectThrow = args[0].c != 0; return; }
  if (n == "__verif_assert_fail") fatalViolation(s, "assert", (long)sx(args[0]));
  if (n == "__verif_fail") fatalViolation(s, "model", (long)sx(args[0]));
  if (n == "__cxa_throw" || n == "__cxa_rethrow" || n.startswith("_ZSt") && n.contains("__throw_") || n == "_ZSt9terminatev" || n == "abort" || n == "__cxa_pure_virtual") {
    if (s.expectThrow && n != "_ZSt9terminatev" && n != "abort" && n != "__cxa_pure_virtual") throw PathEnd{"throw-expected"};
    fatalViolation(s, (n == "_ZSt9terminatev" || n == "abort" || n == "__cxa_pure_virtual") ? "abort" : "throw", 0);
  }
  if (n == "__cxa_allocate_exception") { ret(conc(64, mkptr(newObj(s, (uint64_t)args[0].c + 128, true, "exception"), 0))); return; }
  if (n == "__cxa_free_exception") return;
  if (n == "memcpy" || n == "memmove") {
    uint64_t ln = concretize(s, args[2], "memcpy length");
    uint64_t d = concPtr(s, args[0]), sr = concPtr(s, args[1]);
    memcopy(s, d, sr, ln);
    ret(conc(64, d));
    return;
  }
  if (n == "memset") {
    uint64_t ln = concretize(s, args[2], "memset length");
    uint64_t d = concPtr(s, args[0]);
    Val b = resize(args[1], 8);
    if (ln) robj(s, d, ln, "memset");
    for (uint64_t i = 0; i < ln; i++) storeInt(s, d + i, b);
    ret(conc(64, d));
    return;
  }
  if (n == "memcmp" || n == "bcmp") {
    uint64_t ln = concretize(s, args[2], "memcmp length");
    uint64_t a = ln ? concPtr(s, args[0]) : 0, b = ln ? concPtr(s, args[1]) : 0;
    ret(cmpBytes(s, a, b, ln, n == "bcmp"));
    return;
  }
  if (n == "memchr") {
    uint64_t ln = concretize(s, args[2], "memchr length");
    uint64_t p = concPtr(s, args[0]);
    Val ch = resize(args[1], 8);
    // fork-free only when concrete; otherwise walk with forks
    for (uint64_t i = 0; i < ln; i++) {
      Val b = loadInt(s, p + i, 8);
      Val eq = icmp(CmpInst::ICMP_EQ, b, ch);
      uint64_t e = eq.sym() ? concretize(s, eq, "memchr compare") : (uint64_t)eq.c;
      if (e) { ret(conc(64, p + i)); return; }
    }
    ret(conc(64, 0));
    return;
  }
  if (n == "__cxa_atexit") { ret(conc(32, 0)); return; }
  if (n == "time") { if (args[0].c) storeInt(s, concPtr(s, args[0]), conc(64, 1700000000)); ret(conc(64, 1700000000)); return; }
  if (n == "__cxa_guard_acquire") {
    uint64_t g = concPtr(s, args[0]);
    Val b = loadInt(s, g, 8);
    ret(conc(32, b.c == 0));
    return;
  }
  if (n == "__cxa_guard_release") { storeInt(s, concPtr(s, args[0]), conc(8, 1)); return; }
  if (n == "__cxa_guard_abort") return;
  if (n == "_ZNSt8ios_base4InitC1Ev" || n == "_ZNSt8ios_base4InitD1Ev") return;
  bound("unmodelled external function " + n.str());
}

// ---------------------------------------------------------------- path end, output
static void finishPath(State& s, const std::string& end) {
  if (end == "infeasible") { ST.infeasible++; return; }
  if (end == "bound") { ST.bounded++; return; }
  if (end == "othershard") { ST.otherShard++; return; }
  if (optShard != s.shLo) { ST.otherShard++; return; }  // an unsplit range is owned by its first shard
  ST.paths++;
  ST.endKinds[end]++;
  std::set<int> cs(s.covers.begin(), s.covers.end());
  for (int c : cs) ST.coverCount[c]++;
  if (optConcrete) {
    for (auto& o : s.observes) printf("O %llx\n", (unsigned long long)evalU64(s, o));
    for (int c : s.covers) printf("C %d\n", c);
    for (int c : s.failedChecks) printf("F %d\n", c);
    printf("END %s\n", end.c_str());
    return;
  }
  if (gPaths.size() < optSamplePaths) {
    PathRec r;
    r.end = end;
    s.model.resize(s.inputs.size(), 0);
    r.inputs = s.model;
    for (auto& o : s.observes) r.observes.push_back(evalU64(s, o));
    r.covers = s.covers;
    r.failedChecks = s.failedChecks;
    gPaths.push_back(r);
  }
}
static std::string jstr(const std::string& s) {
  std::string o = "\"";
  for (char c : s) { if (c == '"' || c == '\\') { o += '\\'; o += c; } else if (c == '\n') o += "\\n"; else if ((unsigned char)c < 32) o += ' '; else o += c; }
  return o + "\"";
}
static void writeResult(const std::string& path, double wall, const std::string& status) {
  std::ostringstream o;
  o << "{\n \"status\": " << jstr(status) << ",\n \"paths\": " << ST.paths << ", \"infeasible\": " << ST.infeasible << ", \"bounded\": " << ST.bounded
    << ", \"forks\": " << ST.forks << ", \"queries\": " << ST.queries << ", \"cache_hits\": " << ST.cacheHits << ", \"model_hits\": " << ST.modelHits
    << ", \"insts\": " << ST.insts << ", \"violations_total\": " << ST.violationsTotal << ", \"max_inputs\": " << ST.maxInputs
    << ", \"solver_s\": " << ST.solver_s << ", \"wall_s\": " << wall << ",\n \"bound_reasons\": [";
  for (size_t i = 0; i < ST.boundReasons.size(); i++) o << (i ? "," : "") << jstr(ST.boundReasons[i]);
  o << "],\n \"cover\": {";
  { bool f = true; for (auto& p : ST.coverCount) { o << (f ? "" : ",") << "\"" << p.first << "\": " << p.second; f = false; } }
  o << "},\n \"end_kinds\": {";
  { bool f = true; for (auto& p : ST.endKinds) { o << (f ? "" : ",") << jstr(p.first) << ": " << p.second; f = false; } }
  o << "},\n \"violations\": [";
  { bool f = true;
    for (auto& kv : gViol) for (auto& v : kv.second.second) {
      o << (f ? "" : ",") << "\n  {\"sig\": " << jstr(v.sig()) << ", \"kind\": " << jstr(v.kind) << ", \"id\": " << v.id << ", \"site\": " << jstr(v.site)
        << ", \"count\": " << kv.second.first << ", \"inputs\": [";
      for (size_t i = 0; i < v.inputs.size(); i++) o << (i ? "," : "") << v.inputs[i].second;
      o << "]}";
      f = false;
    } }
  o << "],\n \"path_samples\": [";
  for (size_t i = 0; i < gPaths.size(); i++) {
    auto& p = gPaths[i];
    o << (i ? "," : "") << "\n  {\"end\": " << jstr(p.end) << ", \"inputs\": [";
    for (size_t k = 0; k < p.inputs.size(); k++) o << (k ? "," : "") << p.inputs[k];
    o << "], \"observes\": [";
    for (size_t k = 0; k < p.observes.size(); k++) o << (k ? "," : "") << p.observes[k];
    o << "], \"covers\": [";
    for (size_t k = 0; k < p.covers.size(); k++) o << (k ? "," : "") << p.covers[k];
    o << "], \"failed\": [";
    for (size_t k = 0; k < p.failedChecks.size(); k++) o << (k ? "," : "") << p.failedChecks[k];
    o << "]}";
  }
  o << "]\n}\n";
  if (path.empty()) { fputs(o.str().c_str(), stdout); return; }
  std::ofstream f(path);
  f << o.str();
}

// ---------------------------------------------------------------- main
static void initGlobals(State& s, Module& M) {
  for (auto& g : M.globals()) {
    uint64_t sz = DL->getTypeAllocSize(g.getValueType());
    gobj[&g] = newObj(s, sz, false, g.getName().str());
  }
  for (auto& F : M) {
    uint32_t id = newObj(s, 1, false, F.getName().str());
    s.mem[id]->fn = &F;
    gobj[&F] = id;
    fobj[id] = &F;
  }
  for (auto& a : M.aliases())
    if (auto* gv = dyn_cast<GlobalValue>(a.getAliasee()->stripPointerCasts())) gobj[&a] = gobj[gv];
  for (auto& g : M.globals()) {
    if (!g.hasInitializer()) continue;
    if (isa<ConstantAggregateZero>(g.getInitializer()) || isa<UndefValue>(g.getInitializer())) continue;
    Val v = constVal(g.getInitializer());
    storeTy(s, conc(64, mkptr(gobj[&g], 0)), g.getValueType(), v);
  }
}
static void drain(bool breadth, size_t untilWork) {
  uint64_t it_ = 0;
  while (!work.empty()) {
    if (untilWork && work.size() >= untilWork) return;
    if (optVerbose && (++it_ & 1023) == 0)
      fprintf(stderr, "progress paths=%llu infeasible=%llu forks=%llu queries=%llu work=%zu solver_s=%.1f wall=%.0f\n", (unsigned long long)ST.paths,
              (unsigned long long)ST.infeasible, (unsigned long long)ST.forks, (unsigned long long)ST.queries, work.size(), ST.solver_s, now() - tStart);
    if (now() - tStart > optMaxWall) { gInconclusive = true; ST.boundReasons.push_back("wall-time limit"); ST.bounded += work.size(); work.clear(); return; }
    if (ST.paths + ST.infeasible > optMaxPaths) { gInconclusive = true; ST.boundReasons.push_back("path limit"); ST.bounded += work.size(); work.clear(); return; }
    State s;
    if (breadth) { s = std::move(work.front()); work.erase(work.begin()); }
    else { s = std::move(work.back()); work.pop_back(); }
    runPath(std::move(s));
    if (optStopFirst && !gViol.empty()) { work.clear(); return; }
  }
}
static void onUsr1(int) {   // debugging aid: kill -USR1 <pid> prints the interpreted call stack of the state being executed
  if (!gCur) return;
  fprintf(stderr, "---- interpreted stack (steps=%llu paths=%llu queries=%llu)\n", (unsigned long long)ST.insts, (unsigned long long)ST.paths, (unsigned long long)ST.queries);
  for (size_t i = gCur->st.size(); i-- > 0;) fprintf(stderr, "  %s\n", gCur->st[i].F ? gCur->st[i].F->getName().str().c_str() : "?");
}
int main(int argc, char** argv) {
  signal(SIGUSR1, onUsr1);
  std::string irFile, entryName;
  for (int i = 1; i < argc; i++) {
    std::string a = argv[i];
    auto nxt = [&]() { if (i + 1 >= argc) { fprintf(stderr, "missing value for %s\n", a.c_str()); exit(3); } return std::string(argv[++i]); };
    if (a == "--max-steps") optMaxSteps = std::stoull(nxt());
    else if (a == "--max-paths") optMaxPaths = std::stoull(nxt());
    else if (a == "--max-wall") optMaxWall = std::stod(nxt());
    else if (a == "--query-timeout-ms") optQueryTimeoutMs = std::stoul(nxt());
    else if (a == "--max-enum") optMaxEnum = std::stoul(nxt());
    else if (a == "--fork-ptr") optForkPtr = std::stoul(nxt()) != 0;
    else if (a == "--havoc-sha") optHavocSha = std::stoul(nxt()) != 0;
    else if (a == "--sample-paths") optSamplePaths = std::stoul(nxt());
    else if (a == "--shard") { std::string v = nxt(); size_t p = v.find('/'); optShard = std::stoul(v.substr(0, p)); optShards = std::stoul(v.substr(p + 1)); }
    else if (a == "--stop-first") optStopFirst = true;
    else if (a == "-v") optVerbose = true;
    else if (a == "--out") optOut = nxt();
    else if (a == "--vector") {
      optConcrete = true;
      std::ifstream f(nxt());
      uint64_t x;
      while (f >> x) concVector.push_back(x);
    } else if (irFile.empty()) irFile = a;
    else entryName = a;
  }
  if (irFile.empty() || entryName.empty()) { fprintf(stderr, "usage: symex <module.ll|bc> <entry> [options]\n"); return 3; }
  LLVMContext C;
  SMDiagnostic E;
  auto M = parseIRFile(irFile, E, C);
  if (!M) { E.print("symex", errs()); return 3; }
  DL = &M->getDataLayout();
  const Function* entry = M->getFunction(entryName);
  if (!entry) { fprintf(stderr, "symex: no entry function %s\n", entryName.c_str()); return 3; }
  tStart = now();
  State s0;
  initGlobals(s0, *M);
  // run static constructors first (in order), then the entry
  std::vector<const Function*> seq;
  if (auto* gc = M->getGlobalVariable("llvm.global_ctors"))
    if (gc->hasInitializer())
      if (auto* arr = dyn_cast<ConstantArray>(gc->getInitializer())) {
        std::vector<std::pair<uint64_t, const Function*>> cs;
        for (auto& op : arr->operands()) {
          auto* st = cast<ConstantStruct>(op);
          if (auto* fn = dyn_cast<Function>(st->getOperand(1)->stripPointerCasts())) cs.push_back({cast<ConstantInt>(st->getOperand(0))->getZExtValue(), fn});
        }
        std::stable_sort(cs.begin(), cs.end(), [](const std::pair<uint64_t, const Function*>& a, const std::pair<uint64_t, const Function*>& b) { return a.first < b.first; });
        for (auto& p : cs) seq.push_back(p.second);
      }
  seq.push_back(entry);
  {
    Frame f;
    f.F = seq[0]; f.fi = &infoOf(seq[0]); f.regs.resize(f.fi->n); f.bb = &seq[0]->getEntryBlock(); f.it = f.bb->begin();
    s0.st.push_back(std::move(f));
    for (size_t k = seq.size(); k-- > 1;) s0.pending.push_back(seq[k]);
  }
  gPaths.clear();
  s0.shLo = 0; s0.shHi = optShards;
  work.push_back(std::move(s0));
  std::string status;
  drain(false, 0);
  if (optConcrete) return 0;
  status = gInconclusive ? "inconclusive" : (gViol.empty() ? "ok" : "violation");
  writeResult(optOut, now() - tStart, status);
  printf("symex: %s paths=%llu infeasible=%llu bounded=%llu forks=%llu queries=%llu(+%llu cached,+%llu by model) insts=%llu violations=%llu solver_s=%.2f wall_s=%.2f\n",
         status.c_str(), (unsigned long long)ST.paths, (unsigned long long)ST.infeasible, (unsigned long long)ST.bounded, (unsigned long long)ST.forks,
         (unsigned long long)ST.queries, (unsigned long long)ST.cacheHits, (unsigned long long)ST.modelHits, (unsigned long long)ST.insts,
         (unsigned long long)ST.violationsTotal, ST.solver_s, now() - tStart);
  for (auto& r : ST.boundReasons) printf("symex: bound: %s\n", r.c_str());
  for (auto& kv : gViol) printf("symex: violation %s x%llu\n", kv.first.c_str(), (unsigned long long)kv.second.first);
  return gInconclusive ? 2 : (gViol.empty() ? 0 : 1);
}
