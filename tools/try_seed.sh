#!/bin/bash
# usage: tools/try_seed.sh <patch.diff> <property> [check args...]   — applies the patch to /repo, runs the check, reverts.
P=$1; shift
cd /repo && git apply --check "$P" || { echo "PATCH DOES NOT APPLY"; exit 9; }
git apply "$P"
cd /verif && ./check "$@" --no-evidence; rc=$?
cd /repo && git checkout -- . 
echo "try_seed: check exit=$rc"
exit $rc
