#!/usr/bin/env python3
"""Runs the registered quick checks against every kept seeded change (applied to /repo, reverted afterwards) and records the outcome in meta.json."""
import json, os, subprocess, sys, re
V = '/verif'
SCRATCH = '/tmp/wt_seed'   # seeds are applied to a scratch worktree of /repo (VERIF_REPO), not to /repo itself
EXTRA = {'C05-v2': ['C05', 'C16'], 'C06-v1': ['C06'], 'C06-v2': ['C06', 'C05'], 'C07-v2': ['C07', 'C08'], 'C08-v1': ['C08'], 'C08-v2': ['C08', 'C07'],
         'C04-v1': ['C04'], 'C04-v2': ['C04'], 'C11-v1': ['C11'], 'C11-v2': ['C11'], 'C03-v1': ['C03'], 'C03-v2': ['C03'], 'C01-v1': ['C01'], 'C01-v2': ['C01'], 'C09-v1': ['C09', 'C03'], 'C09-v2': ['C09'],
         'C04b-v1': ['C04', 'C07'], 'C01b-v1': ['C01', 'C04'], 'C09b-v2': ['C09'], 'C13b-v2': ['C13', 'C19'], 'C20-v1': ['C20'], 'C19-v1': ['C19', 'C12'], 'C19-v2': ['C19', 'C13'], 'C12-v1': ['C12'], 'C12-v2': ['C12', 'C07'], 'C13-v1': ['C13'], 'C13-v2': ['C13'], 'C18-v1': ['C18'], 'C18-v2': ['C18'], 'C05-v1': ['C05'], 'C02-v1': ['C02'], 'C02-v2': ['C02'], 'C07-v1': ['C07']}
TIER = {('C20-v1', 'C20'): 'thorough'}   # caught by a thorough-only harness (h_toyfork)
force = '--force' in sys.argv
only = [a for a in sys.argv[1:] if not a.startswith('--')]
for sid in sorted(os.listdir(V + '/seeded')):
    d = os.path.join(V, 'seeded', sid)
    mp = os.path.join(d, 'meta.json')
    if not os.path.exists(mp) or (only and sid not in only):
        continue
    meta = json.load(open(mp))
    patch = os.path.join(d, 'patch_rebased.diff') if os.path.exists(os.path.join(d, 'patch_rebased.diff')) else os.path.join(d, 'patch.diff')
    if all(pp in meta.get('checks_run_against_it', {}) for pp in EXTRA.get(sid, [meta['breaks_property']])) and not force:
        continue
    subprocess.run(['git', '-C', SCRATCH, 'checkout', '--detach', subprocess.run(['git', '-C', '/repo', 'rev-parse', 'HEAD'], capture_output=True, text=True).stdout.strip()], capture_output=True)
    if subprocess.run(['git', '-C', SCRATCH, 'apply', '--check', patch]).returncode != 0:
        meta['checks_run_against_it'] = {'error': 'patch does not apply to the current /repo (fixes changed the context); needs a rebased patch'}
        json.dump(meta, open(mp, 'w'), indent=1)
        print(sid, 'PATCH DOES NOT APPLY')
        continue
    subprocess.run(['git', '-C', SCRATCH, 'apply', patch], check=True)
    try:
        for prop in EXTRA.get(sid, [meta['breaks_property']]):
            if not force and prop in meta.get('checks_run_against_it', {}):
                continue
            tier = TIER.get((sid, prop), 'quick')
            p = subprocess.run([V + '/check', prop, '--no-evidence', '--tier', tier], cwd=V, capture_output=True, text=True, env=dict(os.environ, VERIF_REPO=SCRATCH, VERIF_WORK='/verif/.work_matrix', VERIF_REPLAYS='/verif/.work_matrix/replays'))
            viol = re.findall(r'harness=(\S+) sig=(\S+)', p.stdout)
            meta['checks_run_against_it'][prop] = {'cmd': './check %s --tier %s (patch applied to a scratch worktree of /repo handed to the check via VERIF_REPO)' % (prop, tier), 'exit': p.returncode, 'caught': p.returncode == 1,
                                                   'violations': sorted(set('%s %s' % v for v in viol))[:6]}
            print(sid, prop, 'exit', p.returncode, sorted(set(v[0] for v in viol)))
            sys.stdout.flush()
    finally:
        subprocess.run(['git', '-C', SCRATCH, 'checkout', '--', '.'], check=True)
    json.dump(meta, open(mp, 'w'), indent=1)
