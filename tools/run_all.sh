#!/bin/bash
# tools/run_all.sh <quick|thorough> [ids...] : runs the registered checks one after another from /verif, logs to /tmp/runall_<tier>/
TIER=$1; shift
IDS=${@:-C01 C02 C03 C04 C05 C06 C07 C08 C09 C10 C11 C12 C13 C14 C15 C16 C17 C18 C19 C20}
mkdir -p /tmp/runall_$TIER
cd /verif
for id in $IDS; do
  /usr/bin/time -f "%e s" ./check $id --tier $TIER > /tmp/runall_$TIER/$id.log 2>&1
  echo "$id exit=$? $(tail -n2 /tmp/runall_$TIER/$id.log | tr '\n' ' ')"
done
