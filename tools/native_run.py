#!/usr/bin/env python3
"""tools/native_run.py <src> <entry> [inputs...]  — builds the harness natively (ASan) with the full real-system source set and runs it"""
import sys, glob
sys.path.insert(0, '/verif/lib'); sys.path.insert(0, '/verif/harness/common')
import vf, srcsets_real
h = {'name': 'dbg', 'src': sys.argv[1], 'entry': sys.argv[2], 'repo_srcs': srcsets_real.REAL + ['src/pop/storage/adaptors/block_provider_impl.cpp'], 'defines': [a[2:] for a in sys.argv[3:] if a.startswith('-D')], 'override': True}
exe = vf.build_native(h, '/verif/.work/dbg')
t = vf.run_native(exe, [int(a) for a in sys.argv[3:] if not a.startswith('-D')], '/verif/.work/dbg')
print({k: t[k] for k in ('end', 'observes', 'covers', 'failed')}); print(t['stderr'][-1500:])
