#!/usr/bin/env python3
"""(Re)writes the 'Seeded changes' section of DESIGN.md from seeded/*/meta.json."""
import json, glob, os, re
V = '/verif'
rows = []
for mp in sorted(glob.glob(V + '/seeded/C*/meta.json')):
    m = json.load(open(mp))
    res = m.get('checks_run_against_it', {})
    caught = [(p, r) for p, r in res.items() if isinstance(r, dict) and r.get('caught')]
    missed = [p for p, r in res.items() if isinstance(r, dict) and not r.get('caught')]
    by = '; '.join('%s%s: %s' % (p, ' (thorough tier)' if '--tier thorough' in r.get('cmd', '') else '', ', '.join(sorted(set(v.split()[0] for v in r.get('violations', []))))) for p, r in caught)
    rows.append('| %s | %s | %s | %s |' % (m['id'], m['needs_to_manifest'].replace('|', '/'), ('**caught** by ' + by) if caught else 'missed', ', '.join(missed) if caught and missed else ('' if caught else 'checks run: ' + ', '.join(missed))))
ncaught = sum('**caught**' in r for r in rows)
sec = ['<!-- SEEDS-BEGIN -->', '## 0b. Seeded changes (independent sub-agents) and which checks catch them', '',
       'Each change was written by a fresh sub-agent that saw only the property text and its own scratch worktree (nothing from /verif); each compiles, passes the whole',
       'test suite and comes with a demonstration. I confirmed every kept change myself (`tools/confirm_seed.sh`: scratch worktree, patch, build, demonstration fails, full `ctest` passes,',
       'unpatched demonstration passes; worktree removed). `tools/seed_matrix.py` applies each patch to a scratch worktree (`VERIF_REPO`) and runs the registered quick checks; the outcome is',
       'recorded in `seeded/<id>/meta.json`. Three rounds: 24 changes (two per property for 12 properties), then 16 for the remaining 8 properties, then 12 more (ids `C..b`) for six',
       'properties with the instruction to use other functions and mechanisms than the first round. %d of %d kept changes are caught (one only by a thorough-tier harness, marked).' % (ncaught, len(rows)),
       'Changes of rounds 2 and 3 that the checks of that moment missed led to targeted harnesses (h_payout, h_retarget past the boundary, h_reload boundary endorsement, h_mempool_vbktie /',
       '_timely / _pair / _stale2, h_reuse, h_toy4 / h_toyfork, h_realinv, h_realbody, h_realctx, h_realrefs, the mid-fork case of h_realsp_unequal, the pruned side block of h_realfin);',
       'the outcome column is the result AFTER those additions. C17-v1 needs two threads racing on a cold progpow epoch: outside what this technique family decides here.',
       'A fourth round (12 changes for C02, C05, C08, C10, C12, C14) was used for guidance only (its changes were tried against the checks in a scratch worktree but not confirmed with the',
       'full protocol, so they are not kept): 8 were caught as they came; 3 led to additions (VBK payload-index exactness in the real-tree harnesses, the VTB held by an unapplied fork block in',
       '`h_realsp_unequal`, `h_mempool_vtbfork`, the re-sent known header in `h_invrev`, the un-endorsed block in the difficulty window of `h_payout`, the removal-after-save continuation of',
       '`h_reload`) and are caught now; 2 stay out of reach: a progpow header cache keyed without the nonce (needs the progpow computation) and a stored-index read limit that only bites above 1024 VTBs in one ALT block.',
       'A fifth guidance round (12 changes for C06, C11, C15, C18, C19, C20): 7 caught as they came, 3 caught after additions (`h_divmul`, the exact future-limit boundary in `h_hdr`, the known block of proof without context in `h_realrefs`);',
       '2 not caught (VBK retarget clamp sign, multisig address checksum length) and 1 in a test utility (MockMiner context builder) outside the properties. A reading note of one of these sub-agents pointed at three pre-existing defects, which the checks then decided and which are fixed (base59 table over-read, epoch 4096, malformed public key).', '',
       '| seed | needs, to manifest | outcome (quick tier) | registered checks that stay silent |', '|---|---|---|---|'] + rows + ['', '<!-- SEEDS-END -->']
p = V + '/DESIGN.md'
s = open(p).read()
txt = '\n'.join(sec)
if '<!-- SEEDS-BEGIN -->' in s:
    s = re.sub(r'<!-- SEEDS-BEGIN -->.*?<!-- SEEDS-END -->', lambda _: txt, s, flags=re.S)
else:
    s = s.replace('## 0. One-page summary', txt + '\n\n---------------------------------------------------------------------------------------------------\n\n## 0. One-page summary', 1)
open(p, 'w').write(s)
print('seeds section: %d rows, %d caught' % (len(rows), ncaught))
