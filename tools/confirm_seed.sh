#!/bin/bash
# usage: tools/confirm_seed.sh <ID> <base-commit>     confirms both variants of seeded/_incoming/<ID> in a scratch worktree /tmp/seed/<ID>
ID=$1; BASE=$2; J=${J:-5}
WT=/tmp/seed/$ID
OUT=/verif/seeded/_confirm
if [ -n "$REUSE" ] && [ -d $WT/_build ]; then
  # reuse the scratch worktree (and its build directory) the sub-agent left behind: sources are reset to the base commit first
  cd $WT && git checkout -- . && [ "$(git rev-parse --short=8 HEAD)" = "$(git -C /repo rev-parse --short=8 $BASE)" ] || exit 9
else
git -C /repo worktree remove --force $WT 2>/dev/null; rm -rf $WT
git -C /repo worktree add --detach $WT $BASE >/dev/null 2>&1 || exit 9
fi
cd $WT
cmake -G Ninja -B _build -S . -DCMAKE_BUILD_TYPE=RelWithDebInfo -DFETCHCONTENT_SOURCE_DIR_GOOGLETEST=/usr/src/googletest -DFETCHCONTENT_FULLY_DISCONNECTED=ON -DWITH_BACKWARD=OFF > $OUT/${ID}_cfg.log 2>&1
for V in v1 v2; do
  S=/verif/seeded/_incoming/$ID/$V
  [ -f $S/patch.diff ] || continue
  R=$OUT/${ID}_$V
  git checkout -- . ; git apply $S/patch.diff || { echo "{\"id\":\"$ID\",\"v\":\"$V\",\"error\":\"patch does not apply\"}" > $R.json; continue; }
  cmake --build _build -j$J > $R.build_patched.log 2>&1; b1=$?
  (cd $WT && sh $S/build_and_run.sh $DEMOARG > $R.demo_patched.log 2>&1); d1=$?
  ctest --test-dir _build -j$J --timeout 900 > $R.ctest_patched.log 2>&1; c1=$?
  git checkout -- .
  cmake --build _build -j$J > $R.build_clean.log 2>&1; b0=$?
  (cd $WT && sh $S/build_and_run.sh $DEMOARG > $R.demo_clean.log 2>&1); d0=$?
  SUMMARY=$(grep "tests passed" $R.ctest_patched.log | tail -n1)
  echo "{\"id\":\"$ID\",\"v\":\"$V\",\"base\":\"$BASE\",\"build_patched\":$b1,\"demo_patched_exit\":$d1,\"ctest_patched_exit\":$c1,\"ctest_summary\":\"$SUMMARY\",\"build_clean\":$b0,\"demo_clean_exit\":$d0}" > $R.json
  cat $R.json
done
cd /; [ -n "$KEEPWT" ] || { git -C /repo worktree remove --force $WT; rm -rf $WT; }
