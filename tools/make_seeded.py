#!/usr/bin/env python3
"""Builds seeded/<id>-<v>/ (patch.diff, demo, NOTES.md, meta.json) from seeded/_incoming + seeded/_confirm for the confirmed changes."""
import json, os, shutil, glob
V = '/verif'
NEEDS = {
 'C01-v1': 'two VBK forks kept alive by the surviving ALT prefix; an abandoned ALT fork carried the single VTB that flipped VBK fork resolution; left via setState (VbkBlockTree::unsafelyRemovePayload uses updateAffectedTips)',
 'C01-v2': 'one BTC block referenced by VTBs at two VBK heights from two ALT forks, the lower one fully validated earlier, then it wins comparePopScore while the higher one is unapplied underneath (BtcBlockAddon::removeRef LIFO fast path with <=)',
 'C02-v1': 'two equal-work VBK branches, losing/tying ALT candidate carries a VTB on the non-best branch, fork crosses a keystone boundary; comparePopScore >= 0 then leaves VBK on the other branch (restore call dropped)',
 'C02-v2': 'same VBK tie; target block with a valid VTB on the non-best branch and a later failing command group; failed setState restores to the post-failure SP tip',
 'C03-v1': 'active chain leads by exactly table[0] when it misses a keystone the candidate has, and the candidate has one more published keystone (>= instead of > in the A-missing branch)',
 'C03-v2': 'a chain whose only endorsement for a keystone period is of the block at exactly keystone+interval+1 (window loop bound < instead of <=)',
 'C04-v1': 'a VTB in a higher VBK block first delivers a BTC block as context, then a VTB in a lower VBK block connects to it (context blocks lose their referenced-at height)',
 'C04-v2': 'an endorsement exactly settlementInterval+1 blocks deep (off-by-one in AddEndorsement::Execute)',
 'C05-v1': 'bad proof of work exactly in blockOfProofContext[0] of an otherwise self-consistent VTB (first context header no longer checked)',
 'C05-v2': 'checkPopData called twice on the same PopData object that contains duplicate ids (checked flag set before the duplicate check)',
 'C06-v1': 'BTC merkle path whose layer count is encoded with the sign bit set (negative count passes, reserve throws)',
 'C06-v2': 'BTC tx whose last 79 bytes equal the first 79 publication bytes (one extra search offset reads tx[size])',
 'C07-v1': 'mempool generatePopData tentatively adds a payload whose command fails: payload id stays in the ALT payload index mapped to the temporary block',
 'C07-v2': 'removeSubtree(X), invalidateSubtree(ancestor of X), acceptBlockHeader(X) again on the ALT tree (deleted descendants skipped by invalidateSubtree)',
 'C08-v1': 'removeSubtree of a chain of >= 2 blocks, then invalidateSubtree of a remaining ancestor, then re-announce the removed headers (stop-descending test uses !isValid())',
 'C08-v2': 'invalidate/revalidate a block with a fork below its children where one branch holds a previously invalidated block (iterative preorder walk returns instead of continue)',
 'C09-v1': 'finalized block with non-empty preserved window; candidate forks below it; fork point, tip and candidate in the same keystone period (TIP_IS_FINAL check moved behind the keystone early return)',
 'C09-v2': 'payload re-submitted after its containing ALT block was finalized and deallocated (finalized payload index hit requires a live block index)',
 'C11-v1': 'negative int64 in Coin.units / signatureIndex / identifier (singleBEValueSize rewritten for non-negative values only)',
 'C11-v2': 'length-prefixed field whose length equals its maximum exactly (>= instead of > in readVarLenValue)',
 'C13-v1': 'same ATV/VTB submitted twice while connected, then removeAll with a pop that is not on the active chain (erase instead of count)',
 'C13-v2': 'an unconnectable orphan VBK block in flight shields higher in-flight blocks in tryConnectPayloads (break on first failure)',
 'C18-v1': 'compact value with exponent byte exactly 0x21 and mantissa 0x000100..0x00ffff (overflow thresholds transposed)',
 'C18-v2': 'base58 text with an embedded NUL (ValidAsCString guard removed)',
 'C01b-v1': 'one BTC block referenced by two applied VTBs recorded at VBK heights in descending order; a third VTB between them connects to it (validateBTCContext looks at refs.front() only)',
 'C01b-v2': 'a VTB lands in a mid-fork block of the non-active VBK fork and makes that fork win: the VBK best chain stays truncated at the containing block (doUpdateAffectedTips of the containing block only)',
 'C03b-v1': 'the two chains publish the same keystone exactly table.size()-1 protecting blocks apart in a race closer than the last table entry (last table entry never awarded)',
 'C03b-v2': 'two adjacent keystone publications of one chain exactly finalityDelay apart (>= instead of > in publicationViolatesFinality)',
 'C04b-v1': 'the same payload in two sibling fork blocks, one fork removed, then a descendant of the other repeats it (PayloadsIndex::remove drops the whole key)',
 'C04b-v2': 'an ATV whose context info has the right height and first previous keystone but a wrong SECOND previous keystone (self-compare in KeystoneContainer::operator==)',
 'C07b-v1': 'a child body accepted before its parent body: blocks connected by the descendants loop never enter the tip set (tryAddTip moved out of connectBlock)',
 'C07b-v2': 'removePayloads on a block whose parent body has not arrived: its ids stay in the ALT payload index (clearSideEffects only for connected blocks)',
 'C09b-v1': 'finalization with unsaved blocks below tip-maxReorg and a competing block exactly at that height (parallel-block clean-up uses the requested block instead of the block that became final)',
 'C09b-v2': 'finalization frees a never-activated side block that carried payloads: its entries stay in the payload index (onBeforeLeafRemoved after deleteTemporarily)',
 'C13b-v1': 'a connected VTB whose containing VBK block falls behind the old-blocks window, then cleanUp (relation erased, VTB left in the per-type map)',
 'C13b-v2': 'two different ATVs with the same fee and endorsed height in one VBK block (pointer tie-break dropped from the relation comparator: the second one is in no relation)',
 'C10-v1': 'a BTC block referenced by two VTBs loses ONE reference after a save (rollback of one ALT block), then an incremental save and reload (setDirty dropped in BtcBlockAddon::removeRef)',
 'C10-v2': 'an ATV contained exactly settlementInterval blocks above the endorsed block, saved, then a non-fast load (loader window off by one in AltBlockTree::loadBlockInner)',
 'C12-v1': 'two equal-work VBK forks on chain and a pooled payload extending the inactive one: generatePopData leaves the VBK best chain on the other fork (restore of the original tip dropped)',
 'C12-v2': 'a pooled payload that passes all mempool checks and then fails on the temporary block: its id stays in the ALT payloads index mapped to the temporary block',
 'C14-v1': 'an endorsement whose block of proof sits on a losing VBK fork, at least 12 VBK blocks below an endorsement on the best chain (getBestPublicationHeight checks the height, not the block)',
 'C14-v2': 'flat-score round with an averaged POP difficulty above 1.0 (popdifficulty no longer reset to 1.0)',
 'C15-v1': 'testnet-style BTC parameters, a retarget whose result is the pow limit after a period that did not end at the limit, then a non-delayed block (min-difficulty walk-back steps over the retarget block)',
 'C15-v2': 'VBK header dated between the two middle elements of an even-sized median-time window (nth_element at size/2 instead of the lower median)',
 'C16-v1': 'an invalid payload that is not the last posted check, PopData released right after the call (result loop returns at the first invalid future)',
 'C16-v2': 'a PopData with a duplicated payload, released right after the call (duplicate check moved in front of the wait loop)',
 'C17-v1': 'two threads hash headers of the same cold progpow epoch (cache entry published before it is built) - needs concurrency',
 'C17-v2': 'a VbkBlock object with a memoised hash reused as decoder output for another header without a precalculated hash (memo only overwritten when a hash is handed in)',
 'C19-v1': 'an ATV delivered through the mempool when the next block is exactly the last timely one (>= instead of > in MemPoolBlockTree::checkContextually)',
 'C19-v2': 'two miners endorse the same ALT block with the same fee in the same VBK block, both delivered through the mempool (comparator tie-break no longer distinguishes them)',
 'C20-v1': 'chain B has a part validated on its own that is at least as tall as active chain A; B\'s next block is valid only thanks to A; comparePopScore(A, B) (only-applied-chain test rewritten around the best tip)',
 'C20-v2': 'B\'s unvalidated payload block depends on A and has an empty block on top; B wins comparePopScore (empty blocks marked fully valid next to the other chain + unapplyWhile predicate skips payload-less blocks)',
}
out = []
for cj in sorted(glob.glob(V + '/seeded/_confirm/C*_v*.json')):
    j = json.load(open(cj))
    if j.get('error'):
        continue
    sid = '%s-%s' % (j['id'], j['v'])
    ok = j['demo_patched_exit'] != 0 and j['ctest_patched_exit'] == 0 and j['demo_clean_exit'] == 0 and j['build_patched'] == 0
    if not ok:
        print('NOT CONFIRMED', sid, j)
        continue
    src = '%s/seeded/_incoming/%s/%s' % (V, j['id'], j['v'])
    dst = '%s/seeded/%s' % (V, sid)
    os.makedirs(dst, exist_ok=True)
    for f in os.listdir(src):
        if f.endswith(('.diff', '.cpp', '.sh', '.md')):
            shutil.copy(os.path.join(src, f), dst)
    meta_p = os.path.join(dst, 'meta.json')
    old = json.load(open(meta_p)) if os.path.exists(meta_p) else {}
    meta = {'id': sid, 'breaks_property': j['id'][:3], 'needs_to_manifest': NEEDS.get(sid, ''),
            'origin': 'fresh sub-agent given only the property text and its own scratch worktree (nothing from /verif)',
            'base_commit': j['base'],
            'confirmed_by_me': {'what_i_ran': 'tools/confirm_seed.sh: scratch worktree of /repo at base_commit under /tmp/seed, git apply patch.diff, cmake --build, the demonstration (build_and_run.sh), full ctest; then git checkout, rebuild, demonstration again; worktree removed afterwards',
                                'demo_exit_with_change': j['demo_patched_exit'], 'ctest_with_change': j['ctest_summary'], 'demo_exit_without_change': j['demo_clean_exit']},
            'checks_run_against_it': old.get('checks_run_against_it', {})}
    json.dump(meta, open(meta_p, 'w'), indent=1)
    out.append(sid)
print('seeded:', ' '.join(out))
