#!/bin/sh
# Builds the verification engines from sources on disk (offline). Output: /verif/.build/{symex,ll2c}
set -e
cd "$(dirname "$0")"
mkdir -p .build
CXXFLAGS="-O2 -g0 -std=c++17 -I/usr/lib/llvm-14/include -D_GNU_SOURCE -D__STDC_CONSTANT_MACROS -D__STDC_FORMAT_MACROS -D__STDC_LIMIT_MACROS -fexceptions"
if [ ! -x .build/symex ] || [ engine/symex.cpp -nt .build/symex ]; then
  g++ $CXXFLAGS engine/symex.cpp -o .build/symex -L/usr/lib/llvm-14/lib -lLLVM-14 -lz3 &
fi
if [ -f engine/ll2c.cpp ]; then
  if [ ! -x .build/ll2c ] || [ engine/ll2c.cpp -nt .build/ll2c ]; then
    g++ $CXXFLAGS engine/ll2c.cpp -o .build/ll2c -L/usr/lib/llvm-14/lib -lLLVM-14 &
  fi
fi
wait
test -x .build/symex
echo "setup: engines built"
