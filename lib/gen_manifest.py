#!/usr/bin/env python3
"""Regenerates MANIFEST.json from lib/manifest_data.py (kept valid at all times)."""
import json, os, sys
sys.path.insert(0, os.path.dirname(os.path.abspath(__file__)))
import manifest_data as md
V = os.path.dirname(os.path.dirname(os.path.abspath(__file__)))
checks = []
for pid, c in sorted(md.CHECKS.items()):
    checks.append({
        'property_id': pid,
        'quick_cmd': './check %s --tier quick' % pid,
        'thorough_cmd': './check %s --tier thorough' % pid,
        'evidence_file': 'evidence/%s.json' % pid,
        'replay_cmd_template': './check %s --replay {path}' % pid,
        'engine': c.get('engine', 'symex'),
        'level_claimed': {'category': 'model_checking', 'text': c['text'], 'design_ref': c.get('design_ref', 'DESIGN.md section 4 ' + pid)},
        'level_note': c['note'],
        'technique': c.get('technique', 'bounded symbolic execution of the real code (clang LLVM IR, own KLEE-style interpreter) with z3 deciding every branch and assertion; counterexamples replayed natively under ASan'),
    })
m = {
    'version': 1,
    'setup_cmd': './setup.sh',
    'hooks': {'guard': 'VBK_VERIF_SYMEXEC', 'enable': 'defined on every harness compile line by lib/vf.py (no line of /repo references it: harnesses reach internals with -fno-access-control and swap assert/fmt/logger headers by pre-defining their include guards)',
              'baseline_off_cmd': 'cmake -G Ninja -B /repo/_build -S /repo -DCMAKE_BUILD_TYPE=RelWithDebInfo && cmake --build /repo/_build && ctest --test-dir /repo/_build -j8 --timeout 900',
              'source_commits': [], 'add_only': True},
    'engines': md.ENGINES,
    'checks': checks,
    'not_applicable': [{'property_id': p, 'reason': r} for p, r in sorted(md.NOT_APPLICABLE.items())],
    'notes': md.NOTES,
}
json.dump(m, open(os.path.join(V, 'MANIFEST.json'), 'w'), indent=1)
print('MANIFEST.json: %d checks, %d not_applicable' % (len(checks), len(m['not_applicable'])))
