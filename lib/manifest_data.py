ENGINES = [
    {'name': 'symex', 'path': 'engine/symex.cpp', 'serves_properties': [], 'kind_free_text': 'own KLEE-style symbolic interpreter over clang-14 LLVM IR of the real functions; z3 decides branch feasibility and every obligation on every path; bounded by declared input ranges'},
]
NOTES = 'Solver-based checking of the real code; see DESIGN.md. Every claim is bounded; bounds are in the evidence files.'
CHECKS = {
    'C06': {'text': 'Every path of the real containsSplit (and, as they are added, the real decoders) over all byte strings of the stated lengths is executed symbolically; each memory access, abort, throw is an obligation decided by z3; exhaustive inside the bound, silent outside.',
            'note': 'Bounded: tx length <= 6 (quick) / 7 (thorough). Trusts: own interpreter (validated each run by native replay of sampled path models under ASan), libmodel stubs, clang -O1 lowering.'},
}
_TODO = 'check not built yet in this session (breadth-first build in progress); see DESIGN.md section 4 for the planned encoding'
NOT_APPLICABLE = {p: _TODO for p in ['C%02d' % i for i in range(1, 21)] if p not in CHECKS}
for _e in ENGINES:
    _e['serves_properties'] = sorted(CHECKS)
