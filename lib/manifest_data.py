ENGINES = [
    {'name': 'symex', 'path': 'engine/symex.cpp', 'serves_properties': [], 'kind_free_text': 'own KLEE-style symbolic interpreter over clang-14 LLVM IR of the real functions; z3 decides branch feasibility and every obligation on every path; bounded by declared input ranges'},
]
NOTES = 'Solver-based checking of the real code; see DESIGN.md. Every claim is bounded; bounds are in the evidence files.'
CHECKS = {
    'C06': {'text': 'Every path of the real containsSplit (and, as they are added, the real decoders) over all byte strings of the stated lengths is executed symbolically; each memory access, abort, throw is an obligation decided by z3; exhaustive inside the bound, silent outside.',
            'note': 'Bounded: tx length <= 6 (quick) / 7 (thorough). Trusts: own interpreter (validated each run by native replay of sampled path models under ASan), libmodel stubs, clang -O1 lowering.'},
}
CHECKS['C11'] = {'text': 'Serde primitives for ALL int64/int32/int16 values (one symbolic input), length-prefixed values for every payload length and [min,max] window inside the bound, and every entity decoder/encoder/estimateSize on every byte string up to the stated length: each obligation decided by z3 on every path.',
                 'note': 'Bounded byte strings (6-9 bytes; fixed-size headers at full length). Hashes/ids and composite payloads (ATV/VTB/PopData) outside. Trusts own interpreter (validated by native replay), libmodel, clang -O1.'}
CHECKS['C13'] = {'text': 'The real ValueSortedMap (the mempool in-flight container) is executed over every sequence of 3 (quick) / 4 (thorough) operations with symbolic keys and tie-ranked values; view agreement, ordering and memory safety are decided on every path.',
                 'note': 'Only the container is decided; MemPool maps/relations/cleanUp are outside the claim. Trusts own interpreter, libmodel rb-tree/hashtable stubs (validated natively each run).'}
CHECKS['C07'] = {'text': 'Every history of 3 (quick) / 4 (thorough) public operations on the real BlockTree<BtcBlock> from every base tree shape is executed symbolically; the structural invariant set is an obligation after each step.',
                 'note': 'Bounded trees (<=6/7 blocks). ALT/VBK specific logic (acceptBlock/connectBlock, payload index, SP reference counting) is not covered by this harness yet. Trusts own interpreter (validated natively), libmodel, preset hashes.'}
CHECKS['C08'] = {'text': 'invalidateSubtree/revalidateSubtree of the real BaseBlockTree on every tree shape of 5 (6) blocks with arbitrary earlier marks, optional removeSubtree and ALT-style re-announcement: exact-subtree marking, restoration of flags and tips, best chain never through invalid blocks — decided on every path.',
                 'note': 'Bounded tree size; BTC instantiation (work-based fork resolution). One known finding (abort on re-announcing the child of a restored FAILED_POP block) is listed in known_findings.txt.'}
CHECKS['C15'] = {'text': 'acceptBlockHeader of the real BTC tree is compared on every path with an independent implementation of the contextual rules (parent, PoW, prescribed difficulty incl. min-difficulty walk-back, median-time-past, future limit), chain-work accumulation and most-work/first-seen best chain.',
                 'note': 'Bounded: trees of 3-5 blocks, 8 timestamps, 2 difficulties, 3 symbolic hash bytes, no retarget boundary; VBK rules not covered yet.'}
_TODO = 'check not built yet in this session (breadth-first build in progress); see DESIGN.md section 4 for the planned encoding'
NOT_APPLICABLE = {p: _TODO for p in ['C%02d' % i for i in range(1, 21)] if p not in CHECKS}
for _e in ENGINES:
    _e['serves_properties'] = sorted(CHECKS)
