import os, sys
sys.path.insert(0, os.path.join(os.path.dirname(os.path.abspath(__file__)), '..', 'common'))
import srcsets
OBL = ['decode of an arbitrary byte string: no out-of-bounds/abort/throw; failure leaves an invalid ValidationState',
       'for every byte string that decodes: estimateSize() == encoded length',
       'for every byte string that decodes: the re-encoding decodes, consumes all its input, and re-encodes to the same bytes (and compares equal where operator== is hash-free)']


def ent(name, macro, nq, nt, covers=(1, 2), jobs=4, tq=110, nmin=0):
    return {'name': 'h_' + name, 'src': 'C11/h_entity.cpp', 'entry': 'h_entity', 'repo_srcs': srcsets.SERDE, 'defines': [macro], 'covers': list(covers), 'jobs': jobs,
            'obligations': ['%s: %s' % (name, o) for o in OBL],
            'rungs': {'quick': [{'defines': ['NBYTES=%d' % nq, 'NMIN=%d' % nmin], 'bound': 'every byte string of length %d..%d' % (nmin, nq), 'timeout': tq}],
                      'thorough': [{'defines': ['NBYTES=%d' % nt, 'NMIN=%d' % nmin], 'bound': 'every byte string of length %d..%d' % (nmin, nt), 'timeout': 1700, 'jobs': 16},
                                   {'defines': ['NBYTES=%d' % nq, 'NMIN=%d' % nmin], 'bound': 'every byte string of length %d..%d' % (nmin, nq), 'timeout': 300}]}}


ENTITY_HARNESSES = [
    ent('coin', 'E_COIN', 9, 10),
    ent('output', 'E_OUTPUT', 5, 7, covers=(2,), jobs=8),
    ent('address', 'E_ADDRESS', 5, 7, covers=(2,), jobs=8),
    ent('btctx', 'E_BTCTX', 7, 10),
    ent('btcblock', 'E_BTCBLOCK', 81, 82, nmin=78),
    ent('btcblock_raw', 'E_BTCBLOCK_RAW', 80, 81, nmin=78),
    ent('vbkblock', 'E_VBKBLOCK', 66, 67, nmin=63),
    ent('vbkblock_raw', 'E_VBKBLOCK_RAW', 65, 66, nmin=63),
    ent('keystone', 'E_KEYSTONE', 6, 8, covers=(2,)),
    ent('ctxinfo', 'E_CTXINFO', 8, 10, covers=(2,)),
    ent('authctx', 'E_AUTHCTX', 8, 10, covers=(2,)),
    ent('pubdata', 'E_PUBDATA', 8, 10),
    ent('vbkmerkle', 'E_VBKMERKLE', 8, 12, covers=(2,)),
    ent('merkle', 'E_MERKLE', 8, 12, covers=(2,)),
    ent('merkle_raw', 'E_MERKLE_RAW', 13, 16, covers=(1, 2), jobs=8),
]
def prim(name, macro, covers, obl, rq, rt, jobs=4):
    return {'name': name, 'src': 'C11/h_serde.cpp', 'entry': 'h_serde', 'repo_srcs': srcsets.BASE + ['src/pop/entities/network_byte_pair.cpp'] if False else srcsets.SERDE, 'defines': [macro], 'covers': covers, 'jobs': jobs,
            'obligations': obl, 'rungs': {'quick': [rq], 'thorough': [rt, rq]}}


PRIM_HARNESSES = [
    prim('h_serde_be', 'MODE_BE', [2, 3, 4, 5, 6, 7, 8, 9],
         ['for ALL 2^64 int64 values: singleBEValueSize(v) == bytes written by writeSingleBEValue(v)', 'for ALL int64 values: readSingleBEValue<int64>(writeSingleBEValue(v)) == v and consumes everything'],
         {'bound': 'all int64 values (one symbolic 64-bit input)', 'timeout': 100}, {'bound': 'all int64 values', 'timeout': 300}),
    prim('h_serde_fixed', 'MODE_FIXED', [1],
         ['fixed-width BE/LE writers and readers round-trip for all int32 / int16 / uint32 values; singleFixedBEValueSize exact'],
         {'bound': 'all int32, int16, uint32 values', 'timeout': 100}, {'bound': 'all int32, int16, uint32 values', 'timeout': 300}),
    prim('h_serde_varlen', 'MODE_VARLEN', [1, 2, 3],
         ['read{VarLen,SingleByteLen}Value accepts exactly lengths inside [min,max] (both bounds inclusive), returns the payload, consumes everything', 'varLenValueSize / singleByteLenValueSize == bytes written'],
         {'defines': ['LMAX=5'], 'bound': 'payload length 0..5, window [min,max] with min,max in 0..6, both encodings', 'timeout': 110},
         {'defines': ['LMAX=8'], 'bound': 'payload length 0..8, min,max in 0..9', 'timeout': 1200, 'jobs': 16}),
    prim('h_serde_rs', 'MODE_RS', [1, 2],
         ['ReadStream / serde readers over an arbitrary buffer and an arbitrary sequence of 3 reads with symbolic sizes: no out-of-bounds, cursor stays inside the buffer, failure leaves an invalid state'],
         {'defines': ['NB=4'], 'bound': 'buffer length 0..4, 3 reads from 9 kinds, sizes 0..6', 'timeout': 110, 'jobs': 8},
         {'defines': ['NB=6'], 'bound': 'buffer length 0..6, 3 reads, sizes 0..8', 'timeout': 1500, 'jobs': 16}),
]
def val(name, macro, covers=(1,)):
    return {'name': 'v_' + name, 'src': 'C11/h_value.cpp', 'entry': 'h_value', 'repo_srcs': srcsets.SERDE, 'defines': [macro], 'covers': list(covers), 'jobs': 4,
            'obligations': ['%s (value-first): decode(encode(x)) == x for symbolic field values and legal field lengths, estimateSize(x) == encoded length, input fully consumed; values at the size limits decode, oversize is rejected' % name],
            'rungs': {'quick': [{'bound': 'all field values symbolic; field lengths 0..3 plus the boundary lengths (1, 64, 255..257, 1023..1025, 32)', 'timeout': 200}], 'thorough': [{'bound': 'as quick', 'timeout': 400}]}}


def comp(name, macro, covers=(1,), jobs=16, tq=250):
    return {'name': 'v_' + name, 'src': 'C11/h_value.cpp', 'entry': 'h_value', 'repo_srcs': srcsets.SERDE, 'defines': [macro], 'covers': list(covers), 'jobs': jobs,
            'obligations': ['%s as a whole (value-first): estimateSize(x) == |encode(x)|; decode(encode(x)) succeeds, consumes exactly the encoding, equals x field by field, and re-encodes to the same bytes' % name],
            'rungs': {'quick': [{'defines': ['OUTS=1'], 'bound': 'scalar fields symbolic (source amount: all int64; signature index, altchain id: 16 bits; output amounts: 8 bits; heights, timestamps, nonces, difficulty, hashes: full width; network byte present or absent); 0..1 outputs, layers and context headers; byte-vector fields of length 0..1 plus signature 72 / public key 88; addresses default; the embedded BTC transaction concrete (its double SHA-256 is the Merkle subject on decode)', 'timeout': tq}],
                      'thorough': [{'defines': ['OUTS=2'], 'bound': 'as quick with 0..2 outputs, layers and context headers', 'timeout': 1500}]}}


COMPOSITE_HARNESSES = [comp('vbktx', 'V_VBKTX'), comp('vbkpoptx', 'V_POPTX'), comp('atv', 'V_ATV'), comp('vtb', 'V_VTB'), comp('popdata', 'V_POPDATA', covers=(1, 2))]
COMPOSITE_HARNESSES[-1]['rungs'] = {'quick': [{'bound': 'PopData with 0..2 context VBK headers (all fields symbolic), 0..2 VTBs and 0..2 ATVs whose embedded transactions keep one symbolic field each (they are decided on their own by v_vbktx .. v_vtb)', 'timeout': 250}],
                                    'thorough': [{'bound': 'as quick', 'timeout': 600}]}
VALUE_HARNESSES = [val('keystone', 'V_KEYSTONE'), val('ctxinfo', 'V_CTX'), val('authctx', 'V_AUTHCTX'), val('pubdata', 'V_PUBDATA', covers=(1, 2)), val('altblock', 'V_ALTBLOCK')]
import importlib.util as _ilu
_sp17 = _ilu.spec_from_file_location('c17spec', os.path.join(os.path.dirname(os.path.abspath(__file__)), '..', 'C17', 'spec.py'))
_c17 = _ilu.module_from_spec(_sp17); _sp17.loader.exec_module(_c17)
HARNESSES = PRIM_HARNESSES + list(ENTITY_HARNESSES) + VALUE_HARNESSES + COMPOSITE_HARNESSES + [h for h in _c17.HARNESSES if h['name'] == 'h_reuse']   # a decoded header never keeps the memoised hash of the object it was decoded into
EXPLANATION = 'Byte-first exploration: the real decoders/encoders/estimateSize of each entity run symbolically on every byte string up to the stated length.'
ASSUMPTIONS = ['Address/Output: a successful decode needs a 30-character text with a valid SHA-256 checksum, unreachable for short arbitrary strings; only the rejecting paths (incl. base58/base59 encoding of arbitrary bytes) are explored', 'ids and hashes (SHA-256 / vBlake / progpow) are not encoded', 'ATV/VTB/VbkTx/VbkPopTx/PopData as wholes are decided value-first only (v_vbktx .. v_popdata): arbitrary BYTE strings of their size are outside']
