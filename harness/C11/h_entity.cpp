// C06 H-DESER-x / C11 H-RT-x (byte-first): an arbitrary byte string of length 0..NBYTES is fed to the real decoder of
// entity T. Obligations: (C06) no out-of-bounds / abort / throw (engine built-ins), outcome is a value or an invalid
// state; (C11) for every string that decodes: estimateSize() == encoded length, the encoding decodes again, re-encoding
// is stable, the second decode consumes its whole input.
#include <veriblock/pop/entities/address.hpp>
#include <veriblock/pop/entities/altblock.hpp>
#include <veriblock/pop/entities/btcblock.hpp>
#include <veriblock/pop/entities/btctx.hpp>
#include <veriblock/pop/entities/coin.hpp>
#include <veriblock/pop/entities/context_info_container.hpp>
#include <veriblock/pop/entities/keystone_container.hpp>
#include <veriblock/pop/entities/merkle_path.hpp>
#include <veriblock/pop/entities/output.hpp>
#include <veriblock/pop/entities/publication_data.hpp>
#include <veriblock/pop/entities/vbk_merkle_path.hpp>
#include <veriblock/pop/entities/vbkblock.hpp>
#include <veriblock/pop/serde.hpp>
using namespace altintegration;
#ifndef NBYTES
#define NBYTES 6
#endif
#ifndef NMIN
#define NMIN 0
#endif
// ---- per-entity adapters -------------------------------------------------------------------------------------------
#if defined(E_COIN)
typedef Coin T;
#define DEC(s, x, st) DeserializeFromVbkEncoding(s, x, st)
#define ENC(x, w) (x).toVbkEncoding(w)
#define HAS_EQ 1
#elif defined(E_OUTPUT)
typedef Output T;
#define DEC(s, x, st) DeserializeFromVbkEncoding(s, x, st)
#define ENC(x, w) (x).toVbkEncoding(w)
#define HAS_EQ 1
#elif defined(E_ADDRESS)
typedef Address T;
#define DEC(s, x, st) DeserializeFromVbkEncoding(s, x, st)
#define ENC(x, w) (x).toVbkEncoding(w)
#define HAS_EQ 1
#elif defined(E_BTCTX)
typedef BtcTx T;
#define DEC(s, x, st) DeserializeFromVbkEncoding(s, x, st)
#define ENC(x, w) (x).toVbkEncoding(w)
#define HAS_EQ 1
#elif defined(E_BTCBLOCK)
typedef BtcBlock T;
#define DEC(s, x, st) DeserializeFromVbkEncoding(s, x, st)
#define ENC(x, w) (x).toVbkEncoding(w)
#define HAS_EQ 0 /* operator== compares hashes (SHA-256) */
#elif defined(E_BTCBLOCK_RAW)
typedef BtcBlock T;
#define DEC(s, x, st) DeserializeFromRaw(s, x, st)
#define ENC(x, w) (x).toRaw(w)
#define HAS_EQ 0
#define NO_ESTIMATE 1 /* estimateSize() is the VBK-encoding size */
#elif defined(E_VBKBLOCK)
typedef VbkBlock T;
#define DEC(s, x, st) DeserializeFromVbkEncoding(s, x, st)
#define ENC(x, w) (x).toVbkEncoding(w)
#define HAS_EQ 0
#elif defined(E_VBKBLOCK_RAW)
typedef VbkBlock T;
#define DEC(s, x, st) DeserializeFromRaw(s, x, st)
#define ENC(x, w) (x).toRaw(w)
#define HAS_EQ 0
#define NO_ESTIMATE 1
#elif defined(E_KEYSTONE)
typedef KeystoneContainer T;
#define DEC(s, x, st) DeserializeFromVbkEncoding(s, x, st)
#define ENC(x, w) (x).toVbkEncoding(w)
#define HAS_EQ 1
#elif defined(E_CTXINFO)
typedef ContextInfoContainer T;
#define DEC(s, x, st) DeserializeFromVbkEncoding(s, x, st)
#define ENC(x, w) (x).toVbkEncoding(w)
#define HAS_EQ 1
#elif defined(E_AUTHCTX)
typedef AuthenticatedContextInfoContainer T;
#define DEC(s, x, st) DeserializeFromVbkEncoding(s, x, st)
#define ENC(x, w) (x).toVbkEncoding(w)
#define HAS_EQ 1
#elif defined(E_PUBDATA)
typedef PublicationData T;
#define DEC(s, x, st) DeserializeFromVbkEncoding(s, x, st)
#define ENC(x, w) (x).toVbkEncoding(w)
#define HAS_EQ 0
#elif defined(E_VBKMERKLE)
typedef VbkMerklePath T;
#define DEC(s, x, st) DeserializeFromVbkEncoding(s, x, st)
#define ENC(x, w) (x).toVbkEncoding(w)
#define HAS_EQ 0
#elif defined(E_MERKLE)
typedef MerklePath T;
static uint256 subj;
#define DEC(s, x, st) DeserializeFromVbkEncoding(s, subj, x, st)
#define ENC(x, w) (x).toVbkEncoding(w)
#define HAS_EQ 0
#elif defined(E_MERKLE_RAW)
typedef MerklePath T;
static uint256 subj;
#define DEC(s, x, st) DeserializeFromRaw(s, subj, x, st)
#define ENC(x, w) (x).toRaw(w)
#define HAS_EQ 0
#define NO_ESTIMATE 1
#else
#error "select an entity"
#endif

extern "C" __attribute__((noinline)) void h_entity() {
  uint32_t len = verif_range(NMIN, NBYTES);
  auto& buf = *new std::vector<uint8_t>(len, 0);
  for (uint32_t i = 0; i < len; i++) buf[i] = nondet_u8();
  auto& rs = *new ReadStream(buf);
  auto& st = *new ValidationState();
  auto& x = *new T();
  bool ok = DEC(rs, x, st);
  verif_observe(ok);
  if (!ok) {
    verif_check(!st.IsValid(), 1);  // a failed decode reports an invalid state
    verif_cover(2);
    return;
  }
  verif_cover(1);
  auto& w = *new WriteStream();
  ENC(x, w);
  verif_observe(w.data().size());
#ifndef NO_ESTIMATE
  verif_check(x.estimateSize() == w.data().size(), 2);  // estimateSize is exact
#endif
  auto& rs2 = *new ReadStream(w.data());
  auto& y = *new T();
  auto& st2 = *new ValidationState();
  bool ok2 = DEC(rs2, y, st2);
  verif_check(ok2, 3);  // an encoding produced by the library decodes
  if (!ok2) return;
  verif_check(rs2.remaining() == 0, 5);
  auto& w2 = *new WriteStream();
  ENC(y, w2);
  verif_check(w2.data() == w.data(), 4);  // decode∘encode is stable
#if HAS_EQ
  verif_check(x == y, 6);
#endif
}
