// C11 H-SERDE / C06 H-RS: serde primitives.
//  MODE_BE   : for ALL int64 v: singleBEValueSize(v) == |writeSingleBEValue(v)| and readSingleBEValue<int64> gives v back
//  MODE_FIXED: fixed-width writers/readers for all int32/int16/uint8 values
//  MODE_VARLEN: write/read VarLenValue + SingleByteLenValue round trip for every payload length 0..LMAX and every [min,max]
//               window (symbolic), accepted iff min <= len <= max; *ValueSize == written size
//  MODE_RS   : arbitrary buffer (<= NB bytes) and an arbitrary sequence of 3 ReadStream/serde reads with symbolic arguments
#include <veriblock/pop/serde.hpp>
using namespace altintegration;
#ifndef LMAX
#define LMAX 6
#endif
#ifndef NB
#define NB 6
#endif
extern "C" __attribute__((noinline)) void h_serde() {
#if defined(MODE_BE)
  int64_t v = (int64_t)nondet_u64();
  auto& w = *new WriteStream();
  writeSingleBEValue(w, v);
  verif_check(singleBEValueSize(v) == w.data().size(), 1);
  auto& rs = *new ReadStream(w.data());
  auto& st = *new ValidationState();
  int64_t back = 0;
  bool ok = readSingleBEValue<int64_t>(rs, back, st);
  verif_check(ok, 2);
  verif_check(back == v, 3);
  verif_check(rs.remaining() == 0, 4);
  verif_observe(w.data().size());
  verif_cover((int)w.data().size());  // 2..9: every length class is reached
#elif defined(MODE_FIXED)
  {
    int32_t v = (int32_t)nondet_u32();
    auto& w = *new WriteStream();
    writeSingleFixedBEValue<int32_t>(w, v);
    verif_check(singleFixedBEValueSize(v) == w.data().size(), 1);
    auto& rs = *new ReadStream(w.data());
    auto& st = *new ValidationState();
    int32_t back = 0;
    verif_check(readSingleBEValue<int32_t>(rs, back, st) && back == v, 2);
  }
  {
    int16_t v = (int16_t)nondet_u16();
    auto& w = *new WriteStream();
    writeSingleFixedBEValue<int16_t>(w, v);
    verif_check(singleFixedBEValueSize(v) == w.data().size(), 3);
    auto& rs = *new ReadStream(w.data());
    auto& st = *new ValidationState();
    int16_t back = 0;
    verif_check(readSingleBEValue<int16_t>(rs, back, st) && back == v, 4);
  }
  {
    uint32_t v = nondet_u32();
    auto& w = *new WriteStream();
    w.writeBE<uint32_t>(v);
    w.writeLE<uint32_t>(v);
    auto& rs = *new ReadStream(w.data());
    auto& st = *new ValidationState();
    uint32_t a = 0, b = 0;
    verif_check(rs.readBE<uint32_t>(a, st) && rs.readLE<uint32_t>(b, st) && a == v && b == v, 5);
  }
  verif_cover(1);
#elif defined(MODE_VARLEN)
  uint32_t len = verif_range(0, LMAX);
  auto& payload = *new std::vector<uint8_t>(len, 0);
  for (uint32_t i = 0; i < len; i++) payload[i] = nondet_u8();
  uint64_t mn = verif_range(0, LMAX + 1), mx = verif_range(0, LMAX + 1);
  bool single = verif_bool();
  auto& w = *new WriteStream();
  if (single) writeSingleByteLenValue(w, payload); else writeVarLenValue(w, payload);
  size_t est = single ? singleByteLenValueSize(payload.size()) : varLenValueSize(payload.size());
  verif_check(est == w.data().size(), 1);
  auto& rs = *new ReadStream(w.data());
  auto& st = *new ValidationState();
  Slice<const uint8_t> out;
  bool ok = single ? readSingleByteLenValue(rs, out, st, mn, mx) : readVarLenValue(rs, out, st, mn, mx);
  verif_check(ok == (len >= mn && len <= mx), 2);   // accepted exactly when the length is inside [min,max]
  if (ok) {
    verif_cover(1);
    verif_check(out.size() == len, 3);
    bool same = true;
    for (uint32_t i = 0; i < len; i++) same = same && out[i] == payload[i];
    verif_check(same, 4);
    verif_check(rs.remaining() == 0, 5);
    if (len == mx) verif_cover(2);  // the boundary length == max is really accepted
  } else {
    verif_check(!st.IsValid(), 6);
    verif_cover(3);
  }
#elif defined(MODE_RS)
  uint32_t len = verif_range(0, NB);
  auto& buf = *new std::vector<uint8_t>(len, 0);
  for (uint32_t i = 0; i < len; i++) buf[i] = nondet_u8();
  auto& rs = *new ReadStream(buf);
  auto& st = *new ValidationState();
  for (int k = 0; k < 3; k++) {
    uint32_t op = verif_range(0, 8);
    uint32_t n = verif_range(0, NB + 2);
    size_t before = rs.position();
    bool ok = true;
    switch (op) {
      case 0: { uint8_t out[NB + 2]; ok = rs.read(n, out, st); if (ok) verif_check(rs.position() == before + n, 10); break; }
      case 1: { Slice<const uint8_t> s; ok = rs.readSlice(n, s, st); if (ok) verif_check(s.size() == n && rs.position() == before + n, 11); break; }
      case 2: { uint32_t v; ok = rs.readBE<uint32_t>(v, st); break; }
      case 3: { uint64_t v; ok = rs.readLE<uint64_t>(v, st); break; }
      case 4: { Slice<const uint8_t> s; ok = readSingleByteLenValue(rs, s, st, 0, n); break; }
      case 5: { Slice<const uint8_t> s; ok = readVarLenValue(rs, s, st, 0, n); break; }
      case 6: { int64_t v; ok = readSingleBEValue<int64_t>(rs, v, st); break; }
      case 7: { NetworkBytePair p; ok = readNetworkByte(rs, TxType::VBK_TX, p, st); break; }
      default: { uint16_t v; ok = rs.readBE<uint16_t>(v, st); break; }
    }
    verif_check(rs.position() <= len, 12);     // the cursor never leaves the buffer
    if (!ok) { verif_check(!st.IsValid(), 13); verif_cover(2); return; }
    verif_cover(1);
  }
#else
#error mode
#endif
}
