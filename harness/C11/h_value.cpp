// C11 H-RT (value-first): for entities whose valid encodings are too long for the byte-first exploration, every field is
// symbolic (lengths symbolic inside the legal range): decode(encode(x)) == x, estimateSize(x) == |encode(x)|, all input consumed.
#include <veriblock/pop/entities/context_info_container.hpp>
#include <veriblock/pop/entities/keystone_container.hpp>
#include <veriblock/pop/entities/publication_data.hpp>
#include <veriblock/pop/entities/altblock.hpp>
#include <veriblock/pop/entities/endorsements.hpp>
#include <veriblock/pop/serde.hpp>
using namespace altintegration;
static std::vector<uint8_t> symVec(uint32_t lo, uint32_t hi, uint32_t fill) {
  uint32_t n = verif_choice(lo, hi);
  std::vector<uint8_t> v(n, (uint8_t)fill);
  for (uint32_t i = 0; i < n && i < 3; i++) v[i] = nondet_u8();    // first bytes symbolic, the rest a constant filler
  if (n > 3) v[n - 1] = nondet_u8();
  return v;
}
extern "C" __attribute__((noinline)) void h_value() {
  auto& w = *new WriteStream();
  auto& st = *new ValidationState();
#if defined(V_KEYSTONE) || defined(V_CTX) || defined(V_AUTHCTX)
  KeystoneContainer k;
  k.firstPreviousKeystone = symVec(0, 3, 7); if (k.firstPreviousKeystone.size()) k.firstPreviousKeystone.resize(verif_choice(0, 1) ? 64 : 1, 9);
  k.secondPreviousKeystone = symVec(0, 2, 5);
#endif
#if defined(V_KEYSTONE)
  k.toVbkEncoding(w);
  verif_check(k.estimateSize() == w.data().size(), 1);
  ReadStream rs(w.data()); KeystoneContainer y;
  bool ok = DeserializeFromVbkEncoding(rs, y, st);
  bool legal = k.firstPreviousKeystone.size() <= 1024 && k.secondPreviousKeystone.size() <= 1024;
  verif_check(ok == legal, 2);
  if (ok) { verif_check(y == k && rs.remaining() == 0, 3); verif_cover(1); }
#elif defined(V_CTX)
  ContextInfoContainer c; c.height = (int)nondet_u32(); c.keystones = k;
  c.toVbkEncoding(w);
  verif_check(c.estimateSize() == w.data().size(), 1);
  ReadStream rs(w.data()); ContextInfoContainer y;
  bool ok = DeserializeFromVbkEncoding(rs, y, st);
  verif_check(ok, 2);
  if (ok) { verif_check(y == c && rs.remaining() == 0, 3); verif_cover(1); }
#elif defined(V_AUTHCTX)
  AuthenticatedContextInfoContainer a; a.ctx.height = (int)nondet_u32(); a.ctx.keystones = k;
  for (int i = 0; i < 32; i++) ((uint8_t*)a.stateRoot.data())[i] = nondet_u8();
  a.toVbkEncoding(w);
  verif_check(a.estimateSize() == w.data().size(), 1);
  ReadStream rs(w.data()); AuthenticatedContextInfoContainer y;
  bool ok = DeserializeFromVbkEncoding(rs, y, st);
  verif_check(ok, 2);
  if (ok) { verif_check(y == a && rs.remaining() == 0, 3); verif_cover(1); }
#elif defined(V_PUBDATA)
  PublicationData p; p.identifier = (int64_t)nondet_u64();
  p.header = symVec(0, 3, 1); if (verif_cbool()) p.header.resize(verif_choice(1023, 1025), 3);       // around the 1024 limit
  p.payoutInfo = symVec(0, 3, 2); if (verif_cbool()) p.payoutInfo.resize(verif_choice(255, 257), 4);  // across the 255/256 length-prefix boundary
  p.contextInfo = symVec(0, 3, 6);
  p.toVbkEncoding(w);
  verif_check(p.estimateSize() == w.data().size(), 1);
  ReadStream rs(w.data()); PublicationData y;
  bool ok = DeserializeFromVbkEncoding(rs, y, st);
  bool legal = p.header.size() <= 1024 && p.payoutInfo.size() <= 10000 && p.contextInfo.size() <= 10000;
  verif_check(ok == legal, 2);                          // every structurally valid value decodes (limits inclusive), oversize is rejected
  if (ok) { verif_check(y.identifier == p.identifier && y.header == p.header && y.payoutInfo == p.payoutInfo && y.contextInfo == p.contextInfo && rs.remaining() == 0, 3); verif_cover(1); }
  else verif_cover(2);
#elif defined(V_ALTBLOCK)
  AltBlock b; b.hash = symVec(1, 3, 1); b.previousBlock = symVec(0, 3, 2); b.height = (int32_t)nondet_u32(); b.timestamp = nondet_u32();
  b.hash.resize(verif_choice(31, 33), 8);                 // the configured ALT hash size is 32: 31 and 33 are structurally invalid
  if (verif_cbool()) b.previousBlock.resize(verif_choice(32, 33), 9);
  b.toVbkEncoding(w);
  verif_check(b.estimateSize() == w.data().size(), 1);
  ReadStream rs(w.data()); AltBlock y;
  bool ok = DeserializeFromVbkEncoding(rs, y, st);
  verif_check(ok == (b.hash.size() == 32 && b.previousBlock.size() <= 32), 2);
  if (ok) { verif_check(y.hash == b.hash && y.previousBlock == b.previousBlock && y.height == b.height && y.timestamp == b.timestamp && rs.remaining() == 0, 3); verif_cover(1); }
#else
#error entity
#endif
}
