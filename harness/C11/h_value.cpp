// C11 H-RT (value-first): for entities whose valid encodings are too long for the byte-first exploration, every field is
// symbolic (lengths symbolic inside the legal range): decode(encode(x)) == x, estimateSize(x) == |encode(x)|, all input consumed.
#include <veriblock/pop/entities/context_info_container.hpp>
#include <veriblock/pop/entities/keystone_container.hpp>
#include <veriblock/pop/entities/publication_data.hpp>
#include <veriblock/pop/entities/altblock.hpp>
#include <veriblock/pop/entities/endorsements.hpp>
#include <veriblock/pop/serde.hpp>
#include <veriblock/pop/entities/atv.hpp>
#include <veriblock/pop/entities/vtb.hpp>
#include <veriblock/pop/entities/popdata.hpp>
using namespace altintegration;
static std::vector<uint8_t> symVec(uint32_t lo, uint32_t hi, uint32_t fill) {
  uint32_t n = verif_choice(lo, hi);
  std::vector<uint8_t> v(n, (uint8_t)fill);
  for (uint32_t i = 0; i < n && i < 3; i++) v[i] = nondet_u8();    // first bytes symbolic, the rest a constant filler
  if (n > 3) v[n - 1] = nondet_u8();
  return v;
}
#ifndef OUTS
#define OUTS 1
#endif
// ---- composite payloads (value-first): symbolic scalar fields, symbolic lengths of the variable-size fields; equality is decided on
// the fields and on the re-encoding (operator== of these types hashes, which is not encodable).  The embedded BTC transaction stays
// concrete because the decoder derives the BTC Merkle subject from its double SHA-256.
static bool gLight = false;
static void symBlob(uint8_t* p, int n) { for (int i = 0; i < n; i += 8) { uint64_t x = nondet_u64(); for (int k = 0; k < 8 && i + k < n; k++) p[i + k] = (uint8_t)(x >> (8 * k)); } }
static VbkBlock symVbkBlock() {
  VbkBlock b; b.height = (int32_t)nondet_u32(); b.version = (int16_t)nondet_u16(); b.timestamp = nondet_u32(); b.difficulty = (int32_t)nondet_u32(); b.nonce = nondet_u64() & 0xffffffffffull;
  symBlob((uint8_t*)b.previousBlock.data(), 12); symBlob((uint8_t*)b.previousKeystone.data(), 9); symBlob((uint8_t*)b.secondPreviousKeystone.data(), 9); symBlob((uint8_t*)b.merkleRoot.data(), 16);
  return b;
}
static bool sameVbk(const VbkBlock& a, const VbkBlock& b) {
  return a.height == b.height && a.version == b.version && a.timestamp == b.timestamp && a.difficulty == b.difficulty && a.nonce == b.nonce && a.previousBlock == b.previousBlock &&
         a.previousKeystone == b.previousKeystone && a.secondPreviousKeystone == b.secondPreviousKeystone && a.merkleRoot == b.merkleRoot;
}
static BtcBlock symBtcBlock() {
  BtcBlock b; b.version = nondet_u32(); b.timestamp = nondet_u32(); b.bits = nondet_u32(); b.nonce = nondet_u32();
  symBlob((uint8_t*)b.previousBlock.data(), 32); symBlob((uint8_t*)b.merkleRoot.data(), 32);
  return b;
}
static bool sameBtc(const BtcBlock& a, const BtcBlock& b) { return a.version == b.version && a.timestamp == b.timestamp && a.bits == b.bits && a.nonce == b.nonce && a.previousBlock == b.previousBlock && a.merkleRoot == b.merkleRoot; }
static VbkMerklePath symVbkPath() {
  VbkMerklePath m;
  if (gLight) { m.treeIndex = 1; m.index = (int32_t)nondet_u8(); return m; }
  m.treeIndex = (int32_t)nondet_u32(); m.index = (int32_t)nondet_u32(); symBlob((uint8_t*)m.subject.data(), 32);
  uint32_t n = verif_choice(0, OUTS); for (uint32_t i = 0; i < n; i++) { uint256 l; symBlob((uint8_t*)l.data(), 32); m.layers.push_back(l); }
  return m;
}
static bool sameVbkPath(const VbkMerklePath& a, const VbkMerklePath& b) { return a.treeIndex == b.treeIndex && a.index == b.index && a.subject == b.subject && a.layers == b.layers; }
static NetworkBytePair symNet(uint8_t type) { NetworkBytePair n; n.typeId = type; n.networkType.hasValue = verif_cbool(); n.networkType.value = n.networkType.hasValue ? nondet_u8() : 0;
  verif_assume(!n.networkType.hasValue || n.networkType.value != type);   // wire format: a network byte equal to the transaction type id is not representable (readNetworkByte would take it for the type)
  return n; }
// gLight (PopData level): the embedded transactions keep one symbolic field each (they are decided on their own by v_vbktx .. v_vtb)
static VbkTx symVbkTx() {
  VbkTx t;
  if (gLight) { t.networkOrType.typeId = 1; t.sourceAmount.units = 1000; t.signatureIndex = (int64_t)nondet_u8(); t.publicationData.identifier = 7; t.publicationData.header = {1, 2}; t.signature = {3}; t.publicKey = {4, 5}; return t; }
  t.networkOrType = symNet(1);
  t.sourceAmount.units = (int64_t)nondet_u64();
  uint32_t no = verif_choice(0, OUTS); for (uint32_t i = 0; i < no; i++) { Output o; o.coin.units = (int64_t)(nondet_u8()); t.outputs.push_back(o); }
  t.signatureIndex = (int64_t)nondet_u16();
  t.publicationData.identifier = (int64_t)nondet_u16(); t.publicationData.header = symVec(0, 1, 1); t.publicationData.payoutInfo = symVec(1, 1, 2); t.publicationData.contextInfo = symVec(1, 1, 3);
  t.signature = symVec(0, 1, 4); if (verif_cbool()) t.signature.resize(72, 4);
  t.publicKey = symVec(1, 1, 5); if (verif_cbool()) t.publicKey.resize(88, 5);
  return t;
}
static bool sameVbkTx(const VbkTx& a, const VbkTx& b) {
  bool outs = a.outputs.size() == b.outputs.size();
  for (size_t i = 0; outs && i < a.outputs.size(); i++) outs = a.outputs[i].coin.units == b.outputs[i].coin.units && a.outputs[i].address == b.outputs[i].address;
  return outs && a.networkOrType.typeId == b.networkOrType.typeId && a.networkOrType.networkType.hasValue == b.networkOrType.networkType.hasValue && a.networkOrType.networkType.value == b.networkOrType.networkType.value &&
         a.sourceAddress == b.sourceAddress && a.sourceAmount.units == b.sourceAmount.units && a.signatureIndex == b.signatureIndex && a.publicationData.identifier == b.publicationData.identifier &&
         a.publicationData.header == b.publicationData.header && a.publicationData.payoutInfo == b.publicationData.payoutInfo && a.publicationData.contextInfo == b.publicationData.contextInfo &&
         a.signature == b.signature && a.publicKey == b.publicKey;
}
static VbkPopTx symPopTx() {
  VbkPopTx t;
  if (gLight) { t.networkOrType.typeId = 2; t.publishedBlock.height = (int32_t)nondet_u32(); t.bitcoinTransaction.tx = {9, 9}; t.merklePath.subject = t.bitcoinTransaction.getHash(); t.signature = {1}; t.publicKey = {2}; return t; }
  t.networkOrType = symNet(2);
  t.publishedBlock = symVbkBlock();
  t.bitcoinTransaction.tx = std::vector<uint8_t>{1, 2, 3, 4, 5};                       // concrete: its double SHA-256 becomes the Merkle subject on decode
  t.merklePath.index = (int32_t)nondet_u32(); t.merklePath.subject = t.bitcoinTransaction.getHash();
  { uint32_t n = verif_choice(0, OUTS); for (uint32_t i = 0; i < n; i++) { uint256 l; symBlob((uint8_t*)l.data(), 32); t.merklePath.layers.push_back(l); } }
  t.blockOfProof = symBtcBlock();
  { uint32_t n = verif_choice(0, OUTS); for (uint32_t i = 0; i < n; i++) t.blockOfProofContext.push_back(symBtcBlock()); }
  t.signature = symVec(0, 1, 4); t.publicKey = symVec(1, 1, 5);
  return t;
}
static bool samePopTx(const VbkPopTx& a, const VbkPopTx& b) {
  bool ctx = a.blockOfProofContext.size() == b.blockOfProofContext.size();
  for (size_t i = 0; ctx && i < a.blockOfProofContext.size(); i++) ctx = sameBtc(a.blockOfProofContext[i], b.blockOfProofContext[i]);
  return ctx && a.networkOrType.typeId == b.networkOrType.typeId && a.networkOrType.networkType.hasValue == b.networkOrType.networkType.hasValue && a.networkOrType.networkType.value == b.networkOrType.networkType.value &&
         a.address == b.address && sameVbk(a.publishedBlock, b.publishedBlock) && a.bitcoinTransaction.tx == b.bitcoinTransaction.tx && a.merklePath.index == b.merklePath.index &&
         a.merklePath.subject == b.merklePath.subject && a.merklePath.layers == b.merklePath.layers && sameBtc(a.blockOfProof, b.blockOfProof) && a.signature == b.signature && a.publicKey == b.publicKey;
}
template <typename T, typename Same>
static void roundTrip(const T& x, Same same) {
  auto& w = *new WriteStream();
  auto& st = *new ValidationState();
  x.toVbkEncoding(w);
  verif_check(x.estimateSize() == w.data().size(), 1);          // estimateSize is exact
  ReadStream rs(w.data());
  T& y = *new T();
  bool ok = DeserializeFromVbkEncoding(rs, y, st);
  verif_check(ok, 2);                                           // every structurally valid value decodes
  if (!ok) return;
  verif_check(rs.remaining() == 0, 3);                          // and consumes exactly its encoding
  verif_check(same(x, y), 4);                                   // field by field equal
  auto& w2 = *new WriteStream();
  y.toVbkEncoding(w2);
  verif_check(w2.data() == w.data(), 5);                        // canonical: re-encoding gives the same bytes
  verif_cover(1);
}
extern "C" __attribute__((noinline)) void h_value() {
#if defined(V_VBKTX)
  roundTrip(symVbkTx(), sameVbkTx); return;
#elif defined(V_POPTX)
  roundTrip(symPopTx(), samePopTx); return;
#elif defined(V_ATV)
  { ATV a; a.transaction = symVbkTx(); a.merklePath = symVbkPath(); a.blockOfProof = symVbkBlock();
    roundTrip(a, [](const ATV& p, const ATV& q) { return p.version == q.version && sameVbkTx(p.transaction, q.transaction) && sameVbkPath(p.merklePath, q.merklePath) && sameVbk(p.blockOfProof, q.blockOfProof); }); return; }
#elif defined(V_VTB)
  { VTB v; v.transaction = symPopTx(); v.merklePath = symVbkPath(); v.containingBlock = symVbkBlock();
    roundTrip(v, [](const VTB& p, const VTB& q) { return p.version == q.version && samePopTx(p.transaction, q.transaction) && sameVbkPath(p.merklePath, q.merklePath) && sameVbk(p.containingBlock, q.containingBlock); }); return; }
#elif defined(V_POPDATA)
  { PopData d; gLight = true;
    uint32_t nc = verif_choice(0, 2), nv = verif_choice(0, 2), na = verif_choice(0, 2);
    for (uint32_t i = 0; i < nc; i++) d.context.push_back(symVbkBlock());
    for (uint32_t i = 0; i < nv; i++) { VTB v; v.transaction = symPopTx(); v.merklePath = symVbkPath(); v.containingBlock = symVbkBlock(); d.vtbs.push_back(v); }
    for (uint32_t i = 0; i < na; i++) { ATV a; a.transaction = symVbkTx(); a.merklePath = symVbkPath(); a.blockOfProof = symVbkBlock(); d.atvs.push_back(a); }
    roundTrip(d, [](const PopData& p, const PopData& q) {
      bool r = p.version == q.version && p.context.size() == q.context.size() && p.vtbs.size() == q.vtbs.size() && p.atvs.size() == q.atvs.size();
      for (size_t i = 0; r && i < p.context.size(); i++) r = sameVbk(p.context[i], q.context[i]);
      for (size_t i = 0; r && i < p.vtbs.size(); i++) r = samePopTx(p.vtbs[i].transaction, q.vtbs[i].transaction) && sameVbkPath(p.vtbs[i].merklePath, q.vtbs[i].merklePath) && sameVbk(p.vtbs[i].containingBlock, q.vtbs[i].containingBlock);
      for (size_t i = 0; r && i < p.atvs.size(); i++) r = sameVbkTx(p.atvs[i].transaction, q.atvs[i].transaction) && sameVbkPath(p.atvs[i].merklePath, q.atvs[i].merklePath) && sameVbk(p.atvs[i].blockOfProof, q.atvs[i].blockOfProof);
      return r; });
    if (nc == 2 && nv == 2 && na == 2) verif_cover(2);
    return; }
#endif
#if !defined(V_VBKTX) && !defined(V_POPTX) && !defined(V_ATV) && !defined(V_VTB) && !defined(V_POPDATA)
  auto& w = *new WriteStream();
  auto& st = *new ValidationState();
#if defined(V_KEYSTONE) || defined(V_CTX) || defined(V_AUTHCTX)
  KeystoneContainer k;
  k.firstPreviousKeystone = symVec(0, 3, 7); if (k.firstPreviousKeystone.size()) k.firstPreviousKeystone.resize(verif_choice(0, 1) ? 64 : 1, 9);
  k.secondPreviousKeystone = symVec(0, 2, 5);
#endif
#if defined(V_KEYSTONE)
  k.toVbkEncoding(w);
  verif_check(k.estimateSize() == w.data().size(), 1);
  ReadStream rs(w.data()); KeystoneContainer y;
  bool ok = DeserializeFromVbkEncoding(rs, y, st);
  bool legal = k.firstPreviousKeystone.size() <= 1024 && k.secondPreviousKeystone.size() <= 1024;
  verif_check(ok == legal, 2);
  if (ok) { verif_check(y == k && rs.remaining() == 0, 3); verif_cover(1); }
#elif defined(V_CTX)
  ContextInfoContainer c; c.height = (int)nondet_u32(); c.keystones = k;
  c.toVbkEncoding(w);
  verif_check(c.estimateSize() == w.data().size(), 1);
  ReadStream rs(w.data()); ContextInfoContainer y;
  bool ok = DeserializeFromVbkEncoding(rs, y, st);
  verif_check(ok, 2);
  if (ok) { verif_check(y == c && rs.remaining() == 0, 3); verif_cover(1); }
#elif defined(V_AUTHCTX)
  AuthenticatedContextInfoContainer a; a.ctx.height = (int)nondet_u32(); a.ctx.keystones = k;
  for (int i = 0; i < 32; i++) ((uint8_t*)a.stateRoot.data())[i] = nondet_u8();
  a.toVbkEncoding(w);
  verif_check(a.estimateSize() == w.data().size(), 1);
  ReadStream rs(w.data()); AuthenticatedContextInfoContainer y;
  bool ok = DeserializeFromVbkEncoding(rs, y, st);
  verif_check(ok, 2);
  if (ok) { verif_check(y == a && rs.remaining() == 0, 3); verif_cover(1); }
#elif defined(V_PUBDATA)
  PublicationData p; p.identifier = (int64_t)nondet_u64();
  p.header = symVec(0, 3, 1); if (verif_cbool()) p.header.resize(verif_choice(1023, 1025), 3);       // around the 1024 limit
  p.payoutInfo = symVec(0, 3, 2); if (verif_cbool()) p.payoutInfo.resize(verif_choice(255, 257), 4);  // across the 255/256 length-prefix boundary
  p.contextInfo = symVec(0, 3, 6);
  p.toVbkEncoding(w);
  verif_check(p.estimateSize() == w.data().size(), 1);
  ReadStream rs(w.data()); PublicationData y;
  bool ok = DeserializeFromVbkEncoding(rs, y, st);
  bool legal = p.header.size() <= 1024 && p.payoutInfo.size() <= 10000 && p.contextInfo.size() <= 10000;
  verif_check(ok == legal, 2);                          // every structurally valid value decodes (limits inclusive), oversize is rejected
  if (ok) { verif_check(y.identifier == p.identifier && y.header == p.header && y.payoutInfo == p.payoutInfo && y.contextInfo == p.contextInfo && rs.remaining() == 0, 3); verif_cover(1); }
  else verif_cover(2);
#elif defined(V_ALTBLOCK)
  AltBlock b; b.hash = symVec(1, 3, 1); b.previousBlock = symVec(0, 3, 2); b.height = (int32_t)nondet_u32(); b.timestamp = nondet_u32();
  b.hash.resize(verif_choice(31, 33), 8);                 // the configured ALT hash size is 32: 31 and 33 are structurally invalid
  if (verif_cbool()) b.previousBlock.resize(verif_choice(32, 33), 9);
  b.toVbkEncoding(w);
  verif_check(b.estimateSize() == w.data().size(), 1);
  ReadStream rs(w.data()); AltBlock y;
  bool ok = DeserializeFromVbkEncoding(rs, y, st);
  verif_check(ok == (b.hash.size() == 32 && b.previousBlock.size() <= 32), 2);
  if (ok) { verif_check(y.hash == b.hash && y.previousBlock == b.previousBlock && y.height == b.height && y.timestamp == b.timestamp && rs.remaining() == 0, 3); verif_cover(1); }
#else
#error entity
#endif
#endif
}
