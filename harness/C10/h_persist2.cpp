// C10 (VBK / ALT indices): persisted projection = the bytes toStoredBlockIndex().toVbkEncoding() would write.
//  MODE_DIRTY2 : from a clean BlockIndex<VbkBlock> / BlockIndex<AltBlock> with symbolic addon content apply one mutator;
//                if the stored bytes change the index must be dirty.
//  MODE_STORED2: stored bytes -> DeserializeFromVbkEncoding -> mergeFrom into a fresh index -> the same stored bytes.
#include <veriblock/pop/blockchain/alt_block_tree.hpp>
#include <veriblock/pop/storage/stored_block_index.hpp>
using namespace altintegration;
template <typename I> static std::vector<uint8_t> stored(const I& i) { WriteStream w; i.toStoredBlockIndex().toVbkEncoding(w); return w.data(); }
static uint256 id256(uint8_t a) { uint256 x; ((uint8_t*)x.data())[0] = a; ((uint8_t*)x.data())[31] = (uint8_t)(a * 3 + 1); return x; }
static std::shared_ptr<VbkEndorsement> vbkE(uint8_t a) { auto e = std::make_shared<VbkEndorsement>(); e->id = id256(a); ((uint8_t*)e->endorsedHash.data())[0] = a; ((uint8_t*)e->containingHash.data())[0] = a; ((uint8_t*)e->blockOfProof.data())[0] = a; return e; }
static std::shared_ptr<AltEndorsement> altE(uint8_t a) { auto e = std::make_shared<AltEndorsement>(); e->id = id256(a); e->endorsedHash = {a}; e->containingHash = {a, a}; ((uint8_t*)e->blockOfProof.data())[0] = a; return e; }
extern "C" __attribute__((noinline)) void h_persist2() {
#if defined(MODE_DIRTY2)
  if (verif_cbool()) {
    auto& parent = *new BlockIndex<VbkBlock>(0);
    auto& x = *new BlockIndex<VbkBlock>(&parent);
    VbkBlock hdr; hdr.height = 1; hdr.timestamp = nondet_u32(); ((uint8_t*)hdr.hash_.data())[23] = 2;
    x.setHeader(hdr);
    x.setStatus(verif_range(0, 2047) & ~(uint32_t)BLOCK_VALID_MASK | BLOCK_VALID_TREE);
    uint32_t nr = verif_choice(0, 2); for (uint32_t k = 0; k < nr; k++) x.addRef(0);
    if (verif_cbool()) x.insertPayloadId<VTB>(id256(5));
    auto e1 = vbkE(7), e2 = vbkE(9), ea = vbkE(11);
    if (verif_cbool()) x.insertContainingEndorsement(e1);
    if (verif_cbool()) x.insertEndorsedBy(e2.get());
    auto aE = altE(13);
    if (verif_cbool()) x.insertBlockOfProofEndorsement(aE.get());
    x.unsetDirty();
    auto before = stored(x);
    uint32_t op = verif_choice(0, 11);
    switch (op) {
      case 0: x.addRef(0); break;
      case 1: if (x.refCount() > 0) x.removeRef(0); break;
      case 2: x.setRef(verif_range(0, 3)); break;
      case 3: x.insertPayloadId<VTB>(id256((uint8_t)verif_range(1, 9))); break;
      case 4: if (!x.getPayloadIds<VTB>().empty()) x.removePayloadId<VTB>(x.getPayloadIds<VTB>()[0]); break;
      case 5: x.insertPayloadIds<VTB>({id256(21), id256(22)}); break;
      case 6: x.insertContainingEndorsement(ea); break;
      case 7: if (!x.getContainingEndorsements().empty()) x.removeContainingEndorsement(x.getContainingEndorsements().begin()); break;
      case 8: x.insertEndorsedBy(ea.get()); break;
      case 9: if (!x.getEndorsedBy().empty()) x.eraseLastFromEndorsedBy(x.getEndorsedBy().back()); break;
      case 10: x.insertBlockOfProofEndorsement(aE.get()); break;
      default: if (!x.getBlockOfProofEndorsement().empty()) x.eraseLastFromBlockOfProofEndorsement(x.getBlockOfProofEndorsement().back()); break;
    }
    verif_check(stored(x) == before || x.isDirty(), 1 + (int)op);
    if (stored(x) != before) verif_cover(1 + (int)op);
  } else {
    auto& parent = *new BlockIndex<AltBlock>(0);
    auto& x = *new BlockIndex<AltBlock>(&parent);
    AltBlock hdr; hdr.hash = std::vector<uint8_t>(32, 2); hdr.previousBlock = std::vector<uint8_t>(32, 1); hdr.height = 1; hdr.timestamp = nondet_u32();
    x.setHeader(hdr);
    x.setStatus(verif_range(0, 2047) & ~(uint32_t)BLOCK_VALID_MASK | BLOCK_VALID_TREE);
    if (verif_cbool()) x.setPayloads<ATV>({id256(3)});
    if (verif_cbool()) x.setPayloads<VTB>({id256(4), id256(5)});
    if (x.hasPayloads()) x.setFlag(BLOCK_HAS_PAYLOADS);   // representation invariant of the ALT index: payload ids present => BLOCK_HAS_PAYLOADS (setPayloads in AltBlockTree)
    auto e1 = altE(7), e2 = altE(9), ea = altE(11);
    if (verif_cbool()) x.insertContainingEndorsement(e1);
    if (verif_cbool()) x.insertEndorsedBy(e2.get());
    x.unsetDirty();
    auto before = stored(x);
    uint32_t op = verif_choice(20, 29);
    switch (op) {
      case 20: x.setPayloads<ATV>({id256((uint8_t)verif_range(1, 9))}); break;
      case 21: x.insertPayloadIds<VTB>({id256(33)}); break;
      case 22: if (!x.getPayloadIds<ATV>().empty()) x.removePayloadId<ATV>(x.getPayloadIds<ATV>()[0]); break;
      case 23: x.clearPayloads(); x.unsetFlag(BLOCK_HAS_PAYLOADS); break;   // as in AltBlockTree::removeAllPayloads, its only caller besides deleteTemporarily (clearPayloads alone does not mark dirty)
      case 24: x.insertContainingEndorsement(ea); break;
      case 25: if (!x.getContainingEndorsements().empty()) x.removeContainingEndorsement(x.getContainingEndorsements().begin()); break;
      case 26: x.insertEndorsedBy(ea.get()); break;
      case 27: if (!x.getEndorsedBy().empty()) x.eraseLastFromEndorsedBy(x.getEndorsedBy().back()); break;
      case 28: { std::vector<VbkBlock::id_t> v(1); ((uint8_t*)v[0].data())[0] = 9; x.setPayloads<VbkBlock>(v); break; }
      default: x.setFlag(BLOCK_HAS_PAYLOADS); break;
    }
    verif_check(stored(x) == before || x.isDirty(), (int)op);
    if (stored(x) != before) verif_cover((int)op);
  }
#elif defined(MODE_STORED2)
  {
    auto& parent = *new BlockIndex<VbkBlock>(0);
    auto& x = *new BlockIndex<VbkBlock>(&parent);
    VbkBlock hdr; hdr.height = (int32_t)nondet_u32(); hdr.version = (int16_t)nondet_u16(); hdr.timestamp = nondet_u32(); hdr.difficulty = (int32_t)nondet_u32(); hdr.nonce = nondet_u32();
    for (int i = 0; i < 12; i++) ((uint8_t*)hdr.previousBlock.data())[i] = nondet_u8();
    ((uint8_t*)hdr.hash_.data())[23] = 2;
    x.setHeader(hdr); x.setHeight((int32_t)nondet_u32()); x.setStatus(nondet_u32());
    x.setRef(nondet_u32());
    uint32_t nv = verif_choice(0, 2); for (uint32_t k = 0; k < nv; k++) x.insertPayloadId<VTB>(id256((uint8_t)(k + 1)));
    auto e1 = vbkE(7);
    if (verif_cbool()) x.insertContainingEndorsement(e1);
    auto bytes = stored(x);
    ReadStream rs(bytes); StoredBlockIndex<VbkBlock> back; ValidationState st;
    bool ok = DeserializeFromVbkEncoding(rs, back, st, hdr.getHash());
    verif_check(ok && rs.remaining() == 0, 1);
    if (!ok) return;
    auto& y = *new BlockIndex<VbkBlock>(&parent);
    y.mergeFrom(back);
    verif_check(stored(y) == bytes, 2);     // reload reproduces every persisted field (header, height, status, ref count, VTB ids, endorsements)
  }
  {
    auto& parent = *new BlockIndex<AltBlock>(0);
    auto& x = *new BlockIndex<AltBlock>(&parent);
    AltBlock hdr; hdr.hash = std::vector<uint8_t>(32, 2); hdr.hash[3] = nondet_u8(); hdr.previousBlock = std::vector<uint8_t>(32, 1); hdr.height = (int32_t)nondet_u32(); hdr.timestamp = nondet_u32();
    x.setHeader(hdr); x.setHeight((int32_t)nondet_u32()); x.setStatus(nondet_u32());
    uint32_t na = verif_choice(0, 2); std::vector<uint256> ids; for (uint32_t k = 0; k < na; k++) ids.push_back(id256((uint8_t)(k + 1)));
    x.setPayloads<ATV>(ids); x.setPayloads<VTB>(ids);
    auto e1 = altE(7);
    if (verif_cbool()) x.insertContainingEndorsement(e1);
    auto bytes = stored(x);
    ReadStream rs(bytes); StoredBlockIndex<AltBlock> back; ValidationState st;
    bool ok = DeserializeFromVbkEncoding(rs, back, st);
    verif_check(ok && rs.remaining() == 0, 3);
    if (!ok) return;
    auto& y = *new BlockIndex<AltBlock>(&parent);
    y.mergeFrom(back);
    verif_check(stored(y) == bytes, 4);
  }
  verif_cover(1);
#else
#error mode
#endif
}
