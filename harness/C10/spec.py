import os, sys
sys.path.insert(0, os.path.join(os.path.dirname(os.path.abspath(__file__)), '..', 'common'))
import srcsets_tree
SRCS = srcsets_tree.BTC_TREE + ['src/pop/storage/util.cpp']


def H(name, macro, obl, q, t, covers=(1,), jobs=8, defs=()):
    return {'name': name, 'src': 'C10/h_persist.cpp', 'entry': 'h_persist', 'repo_srcs': SRCS, 'defines': [macro] + list(defs), 'covers': list(covers), 'jobs': jobs,
            'obligations': obl, 'rungs': {'quick': [q], 'thorough': [t, q]}}


HARNESSES = [
    H('h_dirty', 'MODE_DIRTY', ['every mutator of BlockIndex<BtcBlock> / BtcBlockAddon (setFlag, unsetFlag, setStatus, setHeight, setHeader, raiseValidity, lowerValidity, addRef, removeRef, deleteTemporarily, restore, clearRefs) applied to an arbitrary clean index: persisted projection changed => isDirty()'],
      {'bound': 'arbitrary status (11 bits), 0..2 refs, one mutator with symbolic argument', 'timeout': 200}, {'bound': 'as quick', 'timeout': 600}, covers=(1, 2, 3, 4, 5, 6, 7, 8, 9, 10, 11)),
    H('h_stored', 'MODE_STORED', ['toStoredBlockIndex -> toVbkEncoding -> DeserializeFromVbkEncoding -> mergeFrom reproduces height, status, header and refs for ALL field values; estimateSize exact'],
      {'bound': 'all 32-bit heights/statuses/header fields, 0..2 refs with arbitrary heights', 'timeout': 200}, {'bound': 'as quick', 'timeout': 600}),
    H('h_save', 'MODE_SAVE', ['saveTree writes exactly the dirty indices and the tip and clears every dirty flag'],
      {'defines': ['NBLK=4'], 'bound': 'every tree shape on 4 blocks x every dirty set', 'timeout': 200}, {'defines': ['NBLK=5'], 'bound': 'every tree shape on 5 blocks x every dirty set', 'timeout': 900, 'jobs': 16}),
]
EXPLANATION = 'Inductive invariant of incremental saving: persisted projection unchanged since the last save OR dirty; decided per mutator on an arbitrary clean index. Plus stored-index round trip and saveTree.'
ASSUMPTIONS = ['loadTrees / recoverEndorsements on the three real trees, storage adaptors and crash points inside a batch are outside', 'VBK/ALT addons (endorsement and payload-id lists) are not yet covered by the mutator harness']
