import os, sys
sys.path.insert(0, os.path.join(os.path.dirname(os.path.abspath(__file__)), '..', 'common'))
import srcsets_tree, srcsets_real
SRCS = srcsets_tree.BTC_TREE + ['src/pop/storage/util.cpp']


def H(name, macro, obl, q, t, covers=(1,), jobs=8, defs=()):
    return {'name': name, 'src': 'C10/h_persist.cpp', 'entry': 'h_persist', 'repo_srcs': SRCS, 'defines': [macro] + list(defs), 'covers': list(covers), 'jobs': jobs,
            'obligations': obl, 'rungs': {'quick': [q], 'thorough': [t, q]}}


HARNESSES = [
    H('h_dirty', 'MODE_DIRTY', ['every mutator of BlockIndex<BtcBlock> / BtcBlockAddon (setFlag, unsetFlag, setStatus, setHeight, setHeader, raiseValidity, lowerValidity, addRef, removeRef, deleteTemporarily, restore, clearRefs) applied to an arbitrary clean index: persisted projection changed => isDirty()'],
      {'bound': 'arbitrary status (11 bits), 0..2 refs, one mutator with symbolic argument', 'timeout': 200}, {'bound': 'as quick', 'timeout': 600}, covers=(1, 2, 3, 4, 5, 6, 7, 8, 9, 10, 11)),
    H('h_stored', 'MODE_STORED', ['toStoredBlockIndex -> toVbkEncoding -> DeserializeFromVbkEncoding -> mergeFrom reproduces height, status, header and refs for ALL field values; estimateSize exact'],
      {'bound': 'all 32-bit heights/statuses/header fields, 0..2 refs with arbitrary heights', 'timeout': 200}, {'bound': 'as quick', 'timeout': 600}),
    H('h_save', 'MODE_SAVE', ['saveTree writes exactly the dirty indices and the tip and clears every dirty flag'],
      {'defines': ['NBLK=4'], 'bound': 'every tree shape on 4 blocks x every dirty set', 'timeout': 200}, {'defines': ['NBLK=5'], 'bound': 'every tree shape on 5 blocks x every dirty set', 'timeout': 900, 'jobs': 16}),
    {'name': 'h_dirty2', 'src': 'C10/h_persist2.cpp', 'entry': 'h_persist2', 'repo_srcs': srcsets_real.REAL, 'defines': ['MODE_DIRTY2'], 'covers': [1, 3, 4, 6, 7, 8, 20, 21, 23, 24, 25, 26], 'jobs': 8,
     'obligations': ['every mutator of BlockIndex<VbkBlock>/VbkBlockAddon/PopState and BlockIndex<AltBlock>/AltBlockAddon (refs, payload ids, containing endorsements, endorsedBy, block-of-proof endorsements, flags) applied to a clean index with symbolic content: stored bytes changed => isDirty()'],
     'rungs': {'quick': [{'bound': 'symbolic status, 0..2 refs, optional VTB/ATV ids and endorsements, one mutator out of 22', 'timeout': 250}], 'thorough': [{'bound': 'as quick', 'timeout': 600}]}},
    {'name': 'h_stored2', 'src': 'C10/h_persist2.cpp', 'entry': 'h_persist2', 'repo_srcs': srcsets_real.REAL, 'defines': ['MODE_STORED2'], 'covers': [1], 'jobs': 4,
     'obligations': ['StoredBlockIndex<VbkBlock> and <AltBlock>: stored bytes -> decode -> mergeFrom into a fresh index -> identical stored bytes, for all header/height/status/ref-count values, 0..2 payload ids and an optional endorsement'],
     'rungs': {'quick': [{'bound': 'all 32-bit field values (symbolic), 0..2 payload ids per kind, 0..1 containing endorsement', 'timeout': 250}], 'thorough': [{'bound': 'as quick', 'timeout': 600}]}},
]
import importlib.util as _ilu
_rp = _ilu.spec_from_file_location('realspec', os.path.join(os.path.dirname(os.path.abspath(__file__)), '..', 'real', 'spec.py'))
_real = _ilu.module_from_spec(_rp); _rp.loader.exec_module(_real)
HARNESSES += _real.RELOAD_HARNESSES
EXPLANATION = 'Inductive invariant of incremental saving: persisted projection unchanged since the last save OR dirty; decided per mutator on an arbitrary clean index. Plus stored-index round trip and saveTree.'
ASSUMPTIONS = ['loadTrees / recoverEndorsements on the three real trees and the in-memory storage adaptors are decided on the scenario space of h_reload only; crash points inside a batch, the LevelDB/RocksDB adaptors and the progpow header cache warm-up are outside']
