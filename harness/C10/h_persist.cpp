// C10: persistence obligations on the real BlockIndex<BtcBlock> / StoredBlockIndex / saveTree.
//  MODE_DIRTY : from an arbitrary CLEAN index (symbolic status/height/refs) apply one arbitrary mutator; if the persisted
//               projection (height, status, header, refs) changed, the index must be dirty (otherwise an incremental
//               save silently drops the change).
//  MODE_STORED: toStoredBlockIndex -> toVbkEncoding -> DeserializeFromVbkEncoding -> mergeFrom is the identity on the projection.
//  MODE_SAVE  : saveTree over a real BTC tree with a symbolic dirty set writes exactly the dirty indices + tip and clears the flags.
#include "common/btc_env.hpp"
#include <veriblock/pop/storage/stored_block_index.hpp>
#if defined(MODE_SAVE)
#include <veriblock/pop/storage/util.hpp>
namespace altintegration {
template struct BlockIndex<BtcBlock>;
template struct BaseBlockTree<BtcBlock>;
template struct BlockTree<BtcBlock, BtcChainParams>;
}
#endif
using namespace vh;
struct Proj { int32_t height; uint32_t status; uint32_t time, bits; size_t nrefs; int32_t refs[4]; };
static Proj proj(const BtcIndex& i) {
  Proj p; p.height = i.getHeight(); p.status = i.getStatus(); p.time = i.getHeader().getTimestamp(); p.bits = i.getHeader().getDifficulty();
  p.nrefs = i.getRefs().size(); for (size_t k = 0; k < 4; k++) p.refs[k] = k < p.nrefs ? i.getRefs()[k] : 0; return p;
}
static bool same(const Proj& a, const Proj& b) {
  bool r = a.height == b.height && a.status == b.status && a.time == b.time && a.bits == b.bits && a.nrefs == b.nrefs;
  for (int k = 0; k < 4; k++) r = r && a.refs[k] == b.refs[k];
  return r;
}
#if defined(MODE_SAVE)
struct Rec : BlockBatch {
  int nBtc = 0; uint8_t ids[16]; uint8_t tip = 0; int nTip = 0;
  void writeBlock(const AltBlock::hash_t&, const AltBlock::prev_hash_t&, const StoredBlockIndex<AltBlock>&) override {}
  void writeBlock(const VbkBlock::hash_t&, const VbkBlock::prev_hash_t&, const StoredBlockIndex<VbkBlock>&) override {}
  void writeBlock(const BtcBlock::hash_t& h, const BtcBlock::prev_hash_t&, const StoredBlockIndex<BtcBlock>&) override { ids[nBtc++] = h.data()[0]; }
  void writeTip(const AltBlock::hash_t&) override {}
  void writeTip(const VbkBlock::hash_t&) override {}
  void writeTip(const BtcBlock::hash_t& v) override { tip = v.data()[0]; nTip++; }
};
#endif
extern "C" __attribute__((noinline)) void h_persist() {
#if defined(MODE_DIRTY)
  auto& parent = *new BtcIndex(0);
  parent.setHeader(mkBtc(1, 0, 1000));
  parent.setStatus(BLOCK_CAN_BE_APPLIED | BLOCK_ACTIVE);
  auto& x = *new BtcIndex(&parent);
  x.setHeader(mkBtc(2, 1, 1010));
  uint32_t st = verif_range(0, 2047);               // arbitrary persisted status: validity level + every flag
  verif_assume((st & BLOCK_VALID_MASK) <= BLOCK_CAN_BE_APPLIED && (st & BLOCK_VALID_MASK) != 5 && (st & BLOCK_VALID_MASK) != 6 && (st & BLOCK_VALID_MASK) != 7);
  x.setStatus(st);
  uint32_t nr = verif_choice(0, 2);
  for (uint32_t k = 0; k < nr; k++) x.addRef((int32_t)verif_range(0, 3));
  x.unsetDirty();                                   // "saved"
  Proj before = proj(x);
  uint32_t op = verif_choice(0, 11);
  uint32_t arg = verif_range(0, 2047);
  switch (op) {
    case 0: { uint32_t f = 1u << verif_choice(4, 10); x.setFlag((BlockValidityStatus)f); break; }
    case 1: { uint32_t f = 1u << verif_choice(4, 10); x.unsetFlag((BlockValidityStatus)f); break; }
    case 2: x.setStatus(arg); break;
    case 3: x.setHeight((int32_t)(arg & 7)); break;
    case 4: x.setHeader(mkBtc(2, 1, 1000 + (arg & 15))); break;
    case 5: { uint32_t l = verif_choice(1, 4); verif_assume(l <= (parent.getStatus() & BLOCK_VALID_MASK)); x.raiseValidity((BlockStateStatus)l); break; }
    case 6: { uint32_t l = verif_choice(0, 4); x.lowerValidity((BlockStateStatus)l); break; }
    case 7: x.addRef((int32_t)(arg & 3)); break;
    case 8: if (x.refCount() > 0) { int32_t r = x.getRefs()[0]; x.removeRef(r); } break;
    case 9: if (!x.isDeleted()) x.deleteTemporarily(); break;
    case 10: if (x.isDeleted()) x.restore(); break;
    default: x.clearRefs(); break;
  }
  Proj after = proj(x);
  verif_check(same(before, after) || x.isDirty(), 1 + (int)op);   // a changed persisted field leaves the block dirty
  if (!same(before, after)) verif_cover(1 + (int)op);
#elif defined(MODE_STORED)
  auto& parent = *new BtcIndex(0);
  auto& x = *new BtcIndex(&parent);
  BtcBlock hdr = mkBtc(2, 1, nondet_u32(), nondet_u32());
  hdr.version = (int32_t)nondet_u32(); hdr.nonce = nondet_u32();
  for (int k = 0; k < 32; k++) ((uint8_t*)hdr.merkleRoot.data())[k] = nondet_u8();
  x.setHeader(hdr);
  x.setHeight((int32_t)nondet_u32());
  x.setStatus(nondet_u32());
  uint32_t nr = verif_choice(0, 2);
  for (uint32_t k = 0; k < nr; k++) x.addRef((int32_t)nondet_u32());
  auto stored = x.toStoredBlockIndex();
  auto& w = *new WriteStream();
  stored.toVbkEncoding(w);
  auto& rs = *new ReadStream(w.data());
  auto& back = *new StoredBlockIndex<BtcBlock>();
  auto& st = *new ValidationState();
  bool ok = DeserializeFromVbkEncoding(rs, back, st);
  verif_check(ok, 2);
  if (!ok) return;
  auto& y = *new BtcIndex(&parent);
  y.mergeFrom(back);
  verif_check(same(proj(x), proj(y)), 3);
  verif_check(y.getHeader().version == hdr.version && y.getHeader().nonce == hdr.nonce && y.getHeader().merkleRoot == hdr.merkleRoot && y.getHeader().previousBlock == hdr.previousBlock, 4);
  verif_cover(1);
#elif defined(MODE_SAVE)
  auto& p = *new BtcP();
  auto& t = newBtcTree(p);
  uint8_t parent[8] = {0};
  buildSymbolicTree(t, NBLK, parent);
  bool dirty[NBLK + 1];
  for (int id = 1; id <= NBLK; id++) { dirty[id] = verif_cbool(); auto* b = idx(t, (uint8_t)id); if (dirty[id]) b->setDirty(); else b->unsetDirty(); }
  auto& rec = *new Rec();
  saveTree(t, rec, [](const BtcIndex&) {});
  int expect = 0;
  for (int id = 1; id <= NBLK; id++) {
    bool written = false;
    for (int k = 0; k < rec.nBtc; k++) written = written || rec.ids[k] == id;
    verif_check(written == dirty[id], 1);                       // exactly the dirty indices are written
    verif_check(!idx(t, (uint8_t)id)->isDirty(), 2);            // and their flags are cleared
    expect += dirty[id];
  }
  verif_check(rec.nBtc == expect, 3);
  verif_check(rec.nTip == 1 && rec.tip == idOf(t.getBestChain().tip()), 4);   // the tip is written
  verif_cover(1);
#else
#error mode
#endif
}
