// C08 H-INVREV: real BlockTree<BtcBlock>. Arbitrary tree shape of NBLK blocks, up to 2 arbitrary earlier invalidations
// (either reason), then invalidateSubtree(B, r) / revalidateSubtree(B, r) for symbolic B and r.
#include "common/btc_env.hpp"
using namespace vh;
#ifndef NBLK
#define NBLK 5
#endif
struct Snap { uint32_t failed[NBLK + 1]; bool tip[NBLK + 1]; };
static void snap(BtcTree& t, Snap& s) {
  for (int id = 1; id <= NBLK; id++) {
    auto* b = t.findBlockIndex(btcHash((uint8_t)id));
    s.failed[id] = b->getStatus() & BLOCK_FAILED_MASK;
    s.tip[id] = t.getTips().count(b) > 0;
  }
}
static bool inSubtree(const uint8_t* parent, int x, int root) {
  while (x != 0) { if (x == root) return true; x = parent[x]; }
  return false;
}
static BlockValidityStatus reasonOf(uint32_t r) { return r ? BLOCK_FAILED_POP : BLOCK_FAILED_BLOCK; }
extern "C" __attribute__((noinline)) void h_invrev() {
  auto& p = *new BtcP();
  auto& t = newBtcTree(p);
  uint8_t parent[NBLK + 2] = {0};
  buildSymbolicTree(t, NBLK, parent);
  checkStructure(t, 100);
  // prior marks
  uint32_t npre = verif_range(0, 2);
  for (uint32_t k = 0; k < npre; k++) {
    uint8_t b = (uint8_t)verif_range(2, NBLK);
    t.invalidateSubtree(*idx(t, b), reasonOf(verif_range(0, 1)));
    checkStructure(t, 200);
    verif_cover(1);
  }
  // optional removal of a subtree (blocks stay in the index in deleted state and may be re-announced later)
  bool removed[NBLK + 2] = {false};
  bool doRemove = verif_bool();
  if (doRemove) {
    uint8_t R = (uint8_t)verif_range(2, NBLK);
    for (int id = 1; id <= NBLK; id++) removed[id] = inSubtree(parent, id, R);
    t.removeSubtree(*t.findBlockIndex(btcHash(R)));
    checkStructure(t, 250);
    verif_cover(5);
  }
  Snap before, mid, after;
  snap(t, before);
  uint8_t B = (uint8_t)verif_range(2, NBLK);
  verif_assume(!removed[B]);
  BlockValidityStatus r = reasonOf(verif_range(0, 1));
  auto* bi = idx(t, B);
  bool wasOnBest = t.getBestChain().contains(bi);
  bool hadReason = bi->hasFlags(r);
  ArithUint256 workBefore = t.getBestChain().tip()->chainWork;
  t.invalidateSubtree(*bi, r);
  checkStructure(t, 300);
  snap(t, mid);
  for (int id = 1; id <= NBLK; id++) {
    if (inSubtree(parent, id, B)) {
      verif_check(mid.failed[id] != 0, 20);               // B and all descendants are failed
      verif_check(!mid.tip[id], 21);                      // ... and unusable as tips
      verif_check(!t.getBestChain().contains(t.findBlockIndex(btcHash((uint8_t)id))), 22);  // best chain moved off them
    } else {
      verif_check(mid.failed[id] == before.failed[id], 23);  // nothing outside the subtree changes
    }
  }
  if (doRemove) {
    // re-announce the removed headers the way AltBlockTree::acceptBlockHeader does (insertBlockHeader + tryAddTip)
    for (int id = 2; id <= NBLK; id++) {
      if (!removed[id]) continue;
      auto* par = t.getBlockIndex(btcHash(parent[id]));
      if (!par) continue;
      auto* ni = t.insertBlockHeader(std::make_shared<BtcBlock>(mkBtc((uint8_t)id, parent[id], 1000 + 10 * id)));
      if (ni->isValid()) t.tryAddTip(ni);
      if (inSubtree(parent, id, B)) { verif_check(!ni->isValid(), 24); verif_cover(6); }  // restored under an invalid ancestor => reported invalid
    }
    checkStructure(t, 500);
    t.revalidateSubtree(*bi, r);
    checkStructure(t, 600);
    return;
  }
  // a peer re-sends the header of a block that is already known (valid or invalidated): nothing changes, in particular an invalidated
  // block never becomes the best tip again however much work it has
  if (verif_bool()) {
    uint8_t Rs = (uint8_t)verif_range(2, NBLK);
    auto* tipBefore = t.getBestChain().tip();
    Snap s0, s1; snap(t, s0);
    ValidationState rst;
    bool acc = t.acceptBlockHeader(mkBtc(Rs, parent[Rs], 1000 + 10 * Rs), rst);
    (void)acc;
    checkStructure(t, 350);
    snap(t, s1);
    verif_check(t.getBestChain().tip() == tipBefore, 25);
    for (int id = 1; id <= NBLK; id++) verif_check(s1.failed[id] == s0.failed[id] && s1.tip[id] == s0.tip[id], 26);
    if (idx(t, Rs)->isFailed()) verif_cover(7);
  }
  if (wasOnBest) verif_cover(2);
  if (hadReason) verif_cover(3);
  t.revalidateSubtree(*bi, r);
  checkStructure(t, 400);
  snap(t, after);
  if (!hadReason) {
    for (int id = 1; id <= NBLK; id++) {
      verif_check(after.failed[id] == before.failed[id], 30);  // invalidate∘revalidate restores every validity mark
      verif_check(after.tip[id] == before.tip[id], 31);        // ... and the tip set
    }
    verif_check(!(t.getBestChain().tip()->chainWork < workBefore), 32);  // an equally good best chain after fork resolution
    verif_cover(4);
  }
  verif_observe(idOf(t.getBestChain().tip()));
}
