import os, sys
sys.path.insert(0, os.path.join(os.path.dirname(os.path.abspath(__file__)), '..', 'common'))
import srcsets_tree
HARNESSES = [
    {'name': 'h_invrev', 'src': 'C08/h_invrev.cpp', 'entry': 'h_invrev', 'repo_srcs': srcsets_tree.BTC_TREE, 'covers': [1, 2, 3, 4, 5, 6, 7], 'jobs': 8, 'address_dependent': False,
     'obligations': ['invalidateSubtree(B,r): B and every descendant failed and not a tip, best chain does not contain them, flags outside subtree(B) unchanged',
                     'revalidateSubtree(B,r) after invalidateSubtree(B,r): every FAILED_* flag and the tip set equal the pre-state; best chain work not lower',
                     'structural invariants (heights, mutual links, failed-descendant closure, tips == valid leaves, contiguous valid best chain) after every step',
                     'headers removed with removeSubtree and re-announced (insertBlockHeader+tryAddTip, as the ALT tree does) under an invalidated ancestor come back invalid', 'no VBK_ASSERT reachable for either reason on any block, including already-invalid ones'],
     'rungs': {'quick': [{'defines': ['NBLK=5'], 'bound': 'every tree shape on 5 blocks, 0..2 earlier invalidations (any block, either reason), optional removeSubtree + re-announce, any B, either reason', 'timeout': 150}],
               'thorough': [{'defines': ['NBLK=6'], 'bound': 'every tree shape on 6 blocks, 0..2 earlier invalidations', 'timeout': 1700, 'jobs': 16},
                            {'defines': ['NBLK=5'], 'bound': 'every tree shape on 5 blocks', 'timeout': 400}]}},
]
import importlib.util as _ilu
_rp = _ilu.spec_from_file_location('realspec', os.path.join(os.path.dirname(os.path.abspath(__file__)), '..', 'real', 'spec.py'))
_real = _ilu.module_from_spec(_rp); _rp.loader.exec_module(_real)
HARNESSES += _real.INV_HARNESSES
EXPLANATION = 'The real BlockTree<BtcBlock> (BaseBlockTree invalidation / revalidation / tip maintenance / fork resolution by work) is executed symbolically over every tree shape and mark placement inside the bound.'
ASSUMPTIONS = ['block hashes are preset small ids (no SHA-256); regtest parameters (no retargeting)', 'set<BlockIndex*> iteration order is the one allocation order of the run (work ties are broken by it)']
