import os, sys
sys.path.insert(0, os.path.join(os.path.dirname(os.path.abspath(__file__)), '..', 'common'))
import srcsets


def H(name, macro, obl, q, t, covers=(1,), jobs=4):
    return {'name': name, 'src': 'C18/h_arith.cpp', 'entry': 'h_arith', 'repo_srcs': srcsets.BASE, 'defines': [macro], 'covers': list(covers), 'jobs': jobs,
            'obligations': obl, 'rungs': {'quick': [q], 'thorough': [t, q]}}


HARNESSES = [
    H('h_compact', 'MODE_COMPACT', ['fromBits == Bitcoin SetCompact (value, negative, overflow) for ALL 2^32 compact values', 'toBits(fromBits(c)) == Bitcoin GetCompact and decodes to the same value, for every non-negative non-overflowing c'],
      {'bound': 'all 2^32 compact values: 256 exponents (case split) x 24 symbolic mantissa/sign bits', 'timeout': 250}, {'bound': 'all 2^32 compact values', 'timeout': 900}, covers=(1, 2, 3, 10, 11, 12, 13, 14, 15), jobs=16),
    H('h_addsub', 'MODE_ADDSUB', ['+=, -=, ~, unary -, ++, --, +=(uint64), getLow64 == 256-bit reference for ALL 256-bit operands'],
      {'bound': 'all pairs of 256-bit operands (64 symbolic bytes)', 'timeout': 200}, {'bound': 'all pairs of 256-bit operands', 'timeout': 900}),
    H('h_cmp', 'MODE_CMP', ['compareTo and the relational operators == 256-bit reference for ALL operand pairs'],
      {'bound': 'all pairs of 256-bit operands', 'timeout': 200}, {'bound': 'all pairs of 256-bit operands', 'timeout': 900}),
    H('h_shift', 'MODE_SHIFT', ['<<= and >>= == reference for ALL 256-bit operands and every shift amount in the bound'],
      {'defines': ['SHMAX=64'], 'bound': 'all 256-bit operands, shift amounts 0..64', 'timeout': 250, 'jobs': 16}, {'defines': ['SHMAX=300'], 'bound': 'all 256-bit operands, shift amounts 0..300', 'timeout': 2400, 'jobs': 16}, jobs=16),
    H('h_mul32', 'MODE_MUL32', ['*=(uint32) == reference for ALL 256-bit x 32-bit operands'],
      {'bound': 'all 256-bit x 32-bit operands', 'timeout': 250}, {'bound': 'all 256-bit x 32-bit operands', 'timeout': 1800}),
    H('h_bits', 'MODE_BITS', ['bits() == index of the highest set bit + 1 for ALL 256-bit values'],
      {'bound': 'all 256-bit values', 'timeout': 200, 'jobs': 8}, {'bound': 'all 256-bit values', 'timeout': 900, 'jobs': 16}, jobs=8),
    H('h_encode', 'MODE_ENCODE', ['toBits(x) == Bitcoin GetCompact and fromBits(toBits(x)) == x truncated to its most significant bytes, for ALL 256-bit x'],
      {'bound': 'all 256-bit values', 'timeout': 250, 'jobs': 16}, {'bound': 'all 256-bit values', 'timeout': 1800, 'jobs': 16}, jobs=16),
    H('h_text', 'MODE_TEXT', ['DecodeBase58(EncodeBase58(b)) == b, DecodeBase59(EncodeBase59(b)) == b, ParseHex(HexStr(b)) == b for every byte string in the bound'],
      {'defines': ['TLEN=1'], 'bound': 'every byte string of length 0..1', 'timeout': 250, 'jobs': 8}, {'defines': ['TLEN=3'], 'bound': 'every byte string of length 0..3', 'timeout': 3000, 'jobs': 16}, jobs=16),
    H('h_textdec', 'MODE_TEXTDEC', ['DecodeBase58 accepts exactly the well-formed texts (alphabet only, optional surrounding white space) among ALL strings over 256 character values, and decode-then-encode returns the text'],
      {'defines': ['TLEN=2'], 'bound': 'every string of length 0..2 over all 256 byte values', 'timeout': 250, 'jobs': 16}, {'defines': ['TLEN=3'], 'bound': 'every string of length 0..3', 'timeout': 3000, 'jobs': 16}, covers=(1, 2), jobs=16),
    H('h_divmul', 'MODE_DIVMUL', ['/= and *=(ArithUint256) == independent restoring division / schoolbook product (mod 2^256) on a grid: divisors and multipliers of every bit length 1..256 in three shapes, three dividend patterns (case split: these kernels branch on every quotient bit)'],
      {'bound': '256 bit lengths x 3 shapes x 3 dividend patterns (2304 operand pairs), concrete per path', 'timeout': 280, 'jobs': 16}, {'bound': 'as quick', 'timeout': 900, 'jobs': 16}, covers=(1, 2), jobs=16),
    H('h_textdec59', 'MODE_TEXTDEC59', ['DecodeBase59 over ALL strings of 256 character values: no access outside its tables, accepts exactly the alphabet-only texts, and re-encoding the decoded bytes returns the text'],
      {'defines': ['TLEN=2'], 'bound': 'every string of length 0..2 over all 256 byte values', 'timeout': 250, 'jobs': 16}, {'defines': ['TLEN=3'], 'bound': 'every string of length 0..3', 'timeout': 3000, 'jobs': 16}, covers=(1, 2), jobs=16),
]
EXPLANATION = 'Bit-level kernels run on fully symbolic operands; z3 decides equivalence with an independent byte-array reference on every path.'
ASSUMPTIONS = ['*=(ArithUint256) and /= are decided on a grid only (h_divmul: every divisor bit length, three shapes, three dividends), not for all operand values; the address text form (SHA-256 checksum) is outside this check', 'rejecting malformed texts is covered only through the decoders explored in C06/C11']
