// C18: ArithUint256 vs an independent byte-array reference (little-endian 32-byte numbers), compact targets for ALL
// 2^32 values (case split on the exponent byte, mantissa symbolic), text codecs round trips.
#include <veriblock/pop/arith_uint256.hpp>
#include <veriblock/pop/base58.hpp>
#include <veriblock/pop/base59.hpp>
#include <veriblock/pop/strutil.hpp>
#include <veriblock/pop/validation_state.hpp>
using namespace altintegration;
struct R256 { uint8_t b[32]; };
static R256 rzero() { R256 r; for (int i = 0; i < 32; i++) r.b[i] = 0; return r; }
static R256 rsym() { R256 r; for (int i = 0; i < 32; i++) r.b[i] = nondet_u8(); return r; }
static ArithUint256 toA(const R256& r) { ArithUint256 a; for (int i = 0; i < 32; i++) a.data()[i] = r.b[i]; return a; }
static bool same(const ArithUint256& a, const R256& r) { uint8_t d = 0; for (int i = 0; i < 32; i++) d |= (uint8_t)(a.data()[i] ^ r.b[i]); return d == 0; }  // branch-free
static R256 radd(const R256& x, const R256& y) { R256 r; unsigned c = 0; for (int i = 0; i < 32; i++) { unsigned s = x.b[i] + y.b[i] + c; r.b[i] = (uint8_t)s; c = s >> 8; } return r; }
static R256 rnot(const R256& x) { R256 r; for (int i = 0; i < 32; i++) r.b[i] = (uint8_t)~x.b[i]; return r; }
static R256 rone() { R256 r = rzero(); r.b[0] = 1; return r; }
static R256 rneg(const R256& x) { return radd(rnot(x), rone()); }
static R256 rsub(const R256& x, const R256& y) { return radd(x, rneg(y)); }
static int rbit(const R256& x, int i) { return (i < 0 || i > 255) ? 0 : (x.b[i / 8] >> (i % 8)) & 1; }
static R256 rshl(const R256& x, unsigned s) { R256 r = rzero(); for (int i = 0; i < 256; i++) r.b[i / 8] |= (uint8_t)(rbit(x, i - (int)s) << (i % 8)); return r; }
static R256 rshr(const R256& x, unsigned s) { R256 r = rzero(); for (int i = 0; i < 256; i++) r.b[i / 8] |= (uint8_t)((s < 256 ? rbit(x, i + (int)s) : 0) << (i % 8)); return r; }
static int rcmp(const R256& x, const R256& y) { for (int i = 31; i >= 0; i--) if (x.b[i] != y.b[i]) return x.b[i] < y.b[i] ? -1 : 1; return 0; }
static R256 rmul32(const R256& x, uint32_t m) { R256 r; uint64_t c = 0; for (int i = 0; i < 32; i++) { uint64_t p = (uint64_t)x.b[i] * m + c; r.b[i] = (uint8_t)p; c = p >> 8; } return r; }
static unsigned rbits(const R256& x) { for (int i = 255; i >= 0; i--) if (rbit(x, i)) return (unsigned)i + 1; return 0; }
// Bitcoin's SetCompact on the reference representation
static R256 refSetCompact(uint32_t c, bool& neg, bool& ovf) {
  unsigned nSize = c >> 24; uint32_t word = c & 0x007fffff;
  R256 r = rzero();
  if (nSize <= 3) { word >>= 8 * (3 - nSize); r.b[0] = (uint8_t)word; r.b[1] = (uint8_t)(word >> 8); r.b[2] = (uint8_t)(word >> 16); }
  else { for (int k = 0; k < 3; k++) { unsigned pos = nSize - 3 + k; if (pos < 32) r.b[pos] = (uint8_t)(word >> (8 * k)); } }
  neg = word != 0 && (c & 0x00800000) != 0;
  ovf = word != 0 && ((nSize > 34) || (word > 0xff && nSize > 33) || (word > 0xffff && nSize > 32));
  return r;
}
static uint32_t refGetCompact(const R256& x) {
  unsigned nSize = (rbits(x) + 7) / 8;
  uint32_t c;
  if (nSize <= 3) { c = (uint32_t)x.b[0] | ((uint32_t)x.b[1] << 8) | ((uint32_t)x.b[2] << 16); c <<= 8 * (3 - nSize); }
  else { c = (uint32_t)x.b[nSize - 3] | ((uint32_t)x.b[nSize - 2] << 8) | ((uint32_t)x.b[nSize - 1] << 16); }
  if (c & 0x00800000) { c >>= 8; nSize++; }
  return c | (nSize << 24);
}
extern "C" __attribute__((noinline)) void h_arith() {
#if defined(MODE_COMPACT)
  uint32_t mant = nondet_u32() & 0x00ffffff;                   // 23 mantissa bits + sign bit, symbolic
  uint32_t exp = (uint32_t)__verif_concretize(nondet_u8());    // all 256 exponents, one path each
  uint32_t c = (exp << 24) | mant;
  bool neg = false, ovf = false, rneg_ = false, rovf = false;
  ArithUint256 t = ArithUint256::fromBits(c, &neg, &ovf);
  R256 ref = refSetCompact(c, rneg_, rovf);
  verif_check(same(t, ref), 1);           // decoded value == Bitcoin definition (for every 32-bit compact value)
  verif_check(neg == rneg_, 2);           // sign flag
  verif_check(ovf == rovf, 3);            // overflow flag
  if (!rneg_ && !rovf) {
    uint32_t back = t.toBits();
    verif_check(back == refGetCompact(ref), 4);                       // encoding == Bitcoin GetCompact
    bool n2, o2;
    ArithUint256 again = ArithUint256::fromBits(back, &n2, &o2);
    verif_check(same(again, ref) && !n2 && !o2, 5);                   // re-encoding a decoded target is the identity on the value
    if (back == c) verif_cover(2);
    verif_cover(1);
  } else verif_cover(3);
  verif_cover(10 + (exp > 34 ? 35 : exp) / 6);
#elif defined(MODE_ADDSUB)
  R256 x = rsym(), y = rsym();
  ArithUint256 a = toA(x), b = toA(y);
  ArithUint256 s = a; s += b; verif_check(same(s, radd(x, y)), 1);
  ArithUint256 d = a; d -= b; verif_check(same(d, rsub(x, y)), 2);
  verif_check(same(~a, rnot(x)), 3);
  verif_check(same(-a, rneg(x)), 4);
  ArithUint256 i = a; ++i; verif_check(same(i, radd(x, rone())), 5);
  ArithUint256 j = a; --j; verif_check(same(j, rsub(x, rone())), 6);
  uint64_t k = nondet_u64();
  ArithUint256 ak = a; ak += k; R256 kk = rzero(); for (int q = 0; q < 8; q++) kk.b[q] = (uint8_t)(k >> (8 * q));
  verif_check(same(ak, radd(x, kk)), 7);
  verif_check(a.getLow64() == ((uint64_t)x.b[0] | ((uint64_t)x.b[1] << 8) | ((uint64_t)x.b[2] << 16) | ((uint64_t)x.b[3] << 24) | ((uint64_t)x.b[4] << 32) | ((uint64_t)x.b[5] << 40) | ((uint64_t)x.b[6] << 48) | ((uint64_t)x.b[7] << 56)), 8);
  verif_cover(1);
#elif defined(MODE_CMP)
  R256 x = rsym(), y = rsym();
  ArithUint256 a = toA(x), b = toA(y);
  int c = a.compareTo(b), r = rcmp(x, y);
  verif_check((c > 0) == (r > 0) && (c < 0) == (r < 0), 1);
  verif_check((a > b) == (r > 0) && (a < b) == (r < 0) && (a >= b) == (r >= 0) && (a <= b) == (r <= 0) && (a == b) == (r == 0), 2);
  verif_cover(1);
#elif defined(MODE_SHIFT)
  R256 x = rsym();
  unsigned s = (unsigned)__verif_concretize(verif_range(0, SHMAX));
  ArithUint256 l = toA(x); l <<= s; verif_check(same(l, rshl(x, s)), 1);
  ArithUint256 r = toA(x); r >>= s; verif_check(same(r, rshr(x, s)), 2);
  verif_cover(1);
#elif defined(MODE_MUL32)
  R256 x = rsym(); uint32_t m = nondet_u32();
  ArithUint256 a = toA(x); a *= m;
  verif_check(same(a, rmul32(x, m)), 1);
  verif_cover(1);
#elif defined(MODE_DIVMUL)
  // /= and *=(ArithUint256) on a grid (their control flow depends on every quotient bit, so the operands are case-split): divisors and
  // multipliers of EVERY bit length 1..256 in three shapes (2^k-1 pattern, 2^(k-1), 2^(k-1)+1), three dividend patterns; the quotient is
  // compared with an independent restoring division and q*b + r == a, r < b is checked with the reference multiplier
  unsigned k = verif_choice(1, 256);
  uint32_t shape = verif_choice(0, 2), pat = verif_choice(0, 2);
  R256 b = rzero();
  if (shape == 0) { for (unsigned i = 0; i < k; i++) b.b[i / 8] |= (uint8_t)(1u << (i % 8)); }                 // 2^k - 1
  else { b.b[(k - 1) / 8] |= (uint8_t)(1u << ((k - 1) % 8)); if (shape == 2) b.b[0] |= 1; }                      // 2^(k-1), 2^(k-1)+1
  R256 a;
  for (int i = 0; i < 32; i++) a.b[i] = pat == 0 ? 0xff : (pat == 1 ? (uint8_t)(0xa5 ^ (i * 29)) : (uint8_t)(i == 31 ? 0x80 : (i * 7 + 1)));
  // reference: restoring division, bit by bit
  R256 q = rzero(), r = rzero();
  for (int i = 255; i >= 0; i--) {
    r = rshl(r, 1); r.b[0] |= (uint8_t)rbit(a, i);
    if (rcmp(r, b) >= 0) { r = rsub(r, b); q.b[i / 8] |= (uint8_t)(1u << (i % 8)); }
  }
  ArithUint256 x = toA(a); x /= toA(b);
  verif_check(same(x, q), 1);                                           // quotient
  // reference multiplication mod 2^256 (schoolbook on bytes)
  auto rmul = [](const R256& u, const R256& v) { R256 o = rzero(); for (int i = 0; i < 32; i++) { unsigned c = 0; for (int j = 0; i + j < 32; j++) { unsigned t = o.b[i + j] + (unsigned)u.b[i] * v.b[j] + c; o.b[i + j] = (uint8_t)t; c = t >> 8; } } return o; };
  R256 qb = rmul(q, b);
  verif_check(rcmp(radd(qb, r), a) == 0 && rcmp(r, b) < 0, 2);          // the reference itself is a division
  ArithUint256 y = toA(q); y *= toA(b);
  verif_check(same(y, qb), 3);                                          // *=(ArithUint256) == schoolbook product
  ArithUint256 z = toA(a); z *= toA(b);
  verif_check(same(z, rmul(a, b)), 4);                                  // ... also when the product wraps 2^256
  if (k >= 57 && k <= 64) verif_cover(2);
  verif_cover(1);
#elif defined(MODE_BITS)
  R256 x = rsym();
  verif_check(toA(x).bits() == rbits(x), 1);
  verif_cover(1);
#elif defined(MODE_ENCODE)
  // fromBits(toBits(x)) keeps exactly the three most significant bytes of x (all 256-bit x)
  R256 x = rsym();
  ArithUint256 a = toA(x);
  uint32_t c = a.toBits();
  verif_check(c == refGetCompact(x), 1);
  bool n = false, o = false;
  ArithUint256 back = ArithUint256::fromBits(c, &n, &o);
  unsigned nb = (rbits(x) + 7) / 8;
  R256 exp = rzero();
  if ((refGetCompact(x) >> 24) > nb) { if (nb >= 2) { exp.b[nb - 1] = x.b[nb - 1]; exp.b[nb - 2] = x.b[nb - 2]; } else if (nb == 1) exp.b[0] = x.b[0]; }   // top bit set: only 2 bytes survive
  else for (unsigned q = 0; q < 3 && q < nb; q++) exp.b[nb - 1 - q] = x.b[nb - 1 - q];
  verif_check(same(back, exp) && !n && !o, 2);
  verif_cover(1);
#elif defined(MODE_TEXT)
  uint32_t len = verif_choice(0, TLEN);
  auto& v = *new std::vector<uint8_t>(len);
  for (uint32_t i = 0; i < len; i++) v[i] = nondet_u8();
  {
    std::string s = EncodeBase58(v);
    auto& out = *new std::vector<uint8_t>();
    ValidationState st;
    verif_check(DecodeBase58(s, out, st), 1);
    verif_check(out == v, 2);
  }
  {
    std::string s = EncodeBase59(v);
    auto& out = *new std::vector<uint8_t>();
    ValidationState st;
    verif_check(DecodeBase59(s, out, st), 3);
    verif_check(out == v, 4);
  }
  {
    std::string s = HexStr(v);
    verif_check(s.size() == 2 * len, 5);
    verif_check(ParseHex(s) == v, 6);
  }
  verif_cover(1);
#elif defined(MODE_TEXTDEC59)
  // every text of length 0..TLEN over ALL 256 character values: DecodeBase59 never reads outside its tables (engine obligation),
  // accepts exactly the texts made of alphabet characters ('0'-'9' with '0' as the last digit, letters without I, O, l), and
  // encoding the decoded bytes gives the text back
  uint32_t len = verif_choice(0, TLEN);
  std::string s(len, 'x');
  for (uint32_t i = 0; i < len; i++) s[i] = (char)nondet_u8();
  auto& out = *new std::vector<uint8_t>();
  ValidationState st;
  bool ok = DecodeBase59(s, out, st);
  auto inAlpha = [](unsigned char c) { return (c >= '0' && c <= '9') || (c >= 'A' && c <= 'Z' && c != 'I' && c != 'O') || (c >= 'a' && c <= 'z' && c != 'l'); };
  bool wf = true;
  for (uint32_t i = 0; i < len; i++) wf = wf && inAlpha((unsigned char)s[i]);
  verif_check(ok == wf, 1);
  if (ok) { verif_check(EncodeBase59(out) == s, 2); verif_cover(1); } else verif_cover(2);
#elif defined(MODE_TEXTDEC)
  // every text of length 0..TLEN over ALL 256 character values: DecodeBase58 accepts exactly the well-formed texts
  // (optional surrounding white space, alphabet characters only) and decoding then re-encoding gives the text back
  uint32_t len = verif_choice(0, TLEN);
  std::string s(len, 'x');
  for (uint32_t i = 0; i < len; i++) s[i] = (char)nondet_u8();
  auto& out = *new std::vector<uint8_t>();
  ValidationState st;
  bool ok = DecodeBase58(s, out, st);
  auto isSp = [](unsigned char c) { return c == ' ' || (c >= 9 && c <= 13); };
  auto inAlpha = [](unsigned char c) { return (c >= '1' && c <= '9') || (c >= 'A' && c <= 'Z' && c != 'I' && c != 'O') || (c >= 'a' && c <= 'z' && c != 'l'); };
  size_t a = 0, b = len;
  while (a < b && isSp((unsigned char)s[a])) a++;
  while (b > a && isSp((unsigned char)s[b - 1])) b--;
  bool well = true;
  for (size_t i = a; i < b; i++) well = well && inAlpha((unsigned char)s[i]);
  verif_check(ok == well, 1);                 // malformed texts (foreign characters, embedded NUL, inner white space) are rejected
  if (ok) { verif_check(EncodeBase58(out) == s.substr(a, b - a), 2); verif_cover(1); }
  else { verif_check(!st.IsValid(), 3); verif_cover(2); }
#else
#error mode
#endif
}
