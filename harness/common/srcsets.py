"""Named sets of /repo sources linked into harness modules (globaldce keeps only what the entry reaches)."""
import glob, os
REPO = os.environ.get('VERIF_REPO', '/repo')
BASE = ['src/pop/serde.cpp', 'src/pop/read_stream.cpp', 'src/pop/write_stream.cpp', 'src/pop/validation_state.cpp', 'src/pop/strutil.cpp',
        'src/pop/base58.cpp', 'src/pop/base59.cpp', 'src/pop/arith_uint256.cpp', 'src/pop/uint.cpp', 'src/pop/keystone_util.cpp', 'src/pop/time.cpp', 'src/pop/hashutil.cpp', 'src/pop/third_party/sha256.cpp']
ENTITIES = sorted('src/pop/entities/' + os.path.basename(f) for f in glob.glob(REPO + '/src/pop/entities/*.cpp'))
ADDONS = ['src/pop/storage/stored_alt_block_addon.cpp', 'src/pop/storage/stored_btc_block_addon.cpp', 'src/pop/storage/stored_vbk_block_addon.cpp',
          'src/pop/blockchain/alt_block_addon.cpp', 'src/pop/blockchain/btc_block_addon.cpp', 'src/pop/blockchain/vbk_block_addon.cpp',
          'src/pop/blockchain/pop/pop_state.cpp']
SERDE = BASE + ENTITIES
