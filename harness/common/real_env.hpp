// F-REAL: the library's real three-tree system (AltBlockTree + VbkBlockTree + BTC tree, real commands, real payload
// plumbing) with hand-made payloads: VBK/BTC block hashes are preset (no progpow / SHA-256 for headers), payload ids are
// real (SHA-256 runs concretely in the engine), signatures are arbitrary bytes (stateless checks are not part of tree
// operations). Decisions (which payload in which block, which fork, which operation) are symbolic choices.
#pragma once
#include <veriblock/pop/blockchain/alt_block_tree.hpp>
#include <veriblock/pop/blockchain/alt_chain_params.hpp>
#include <veriblock/pop/blockchain/btc_chain_params.hpp>
#include <veriblock/pop/blockchain/vbk_chain_params.hpp>
#include <veriblock/pop/storage/block_reader.hpp>
#include <veriblock/pop/storage/payloads_provider.hpp>
#include <veriblock/pop/time.hpp>
#include <veriblock/pop/bootstraps.hpp>
#include <veriblock/pop/alt-util.hpp>
#include <veriblock/pop/blockchain/miner.hpp>
#include <map>
namespace vr {
using namespace altintegration;
struct AP : AltChainParams {
  AP() {
    mKeystoneInterval = 2; mFinalityDelay = 100; mEndorsementSettlementInterval = 3; mMaxReorgBlocks = 1000; mPreserveBlocksBehindFinal = 3;
  }
  int64_t getIdentifier() const noexcept override { return 7; }
  AltBlock getBootstrapBlock() const noexcept override {
    AltBlock b; b.hash = std::vector<uint8_t>(32, 0); b.hash[0] = 1; b.previousBlock = std::vector<uint8_t>(32, 0); b.height = 0; b.timestamp = 1000; return b;
  }
  // header bytes: [hash(32) | prev(32) | height(4) | time(4)] ; hash of a header = its first 32 bytes
  std::vector<uint8_t> getHash(const std::vector<uint8_t>& bytes) const noexcept override { return std::vector<uint8_t>(bytes.begin(), bytes.begin() + (bytes.size() < 32 ? bytes.size() : 32)); }
  bool checkBlockHeader(const std::vector<uint8_t>&, const std::vector<uint8_t>&, ValidationState&) const noexcept override { return true; }
};
struct MemPayloads : PayloadsStorage {
  std::map<std::vector<uint8_t>, ATV> atvs; std::map<std::vector<uint8_t>, VTB> vtbs; std::map<std::vector<uint8_t>, VbkBlock> vbks;
  bool getATV(const ATV::id_t& id, ATV& out, ValidationState& st) override { auto it = atvs.find(id.asVector()); if (it == atvs.end()) return st.Invalid("no-atv"); out = it->second; return true; }
  bool getVTB(const VTB::id_t& id, VTB& out, ValidationState& st) override { auto it = vtbs.find(id.asVector()); if (it == vtbs.end()) return st.Invalid("no-vtb"); out = it->second; return true; }
  bool getVBK(const VbkBlock::id_t& id, VbkBlock& out, ValidationState& st) override { auto it = vbks.find(id.asVector()); if (it == vbks.end()) return st.Invalid("no-vbk"); out = it->second; return true; }
  void writePayloads(const PopData& p) override { for (auto& a : p.atvs) atvs[a.getId().asVector()] = a; for (auto& v : p.vtbs) vtbs[v.getId().asVector()] = v; for (auto& b : p.context) vbks[b.getId().asVector()] = b; }
};
struct NoReader : BlockReader {
  bool getAltTip(AltBlock::hash_t&) const override { return false; }
  bool getVbkTip(VbkBlock::hash_t&) const override { return false; }
  bool getBtcTip(BtcBlock::hash_t&) const override { return false; }
  bool getBlock(const AltBlock::prev_hash_t&, StoredBlockIndex<AltBlock>&) const override { return false; }
  bool getBlock(const VbkBlock::prev_hash_t&, StoredBlockIndex<VbkBlock>&) const override { return false; }
  bool getBlock(const BtcBlock::prev_hash_t&, StoredBlockIndex<BtcBlock>&) const override { return false; }
  std::shared_ptr<BlockIterator<AltBlock>> getAltBlockIterator() const override { return nullptr; }
  std::shared_ptr<BlockIterator<VbkBlock>> getVbkBlockIterator() const override { return nullptr; }
  std::shared_ptr<BlockIterator<BtcBlock>> getBtcBlockIterator() const override { return nullptr; }
};
inline std::vector<uint8_t> altHash(uint8_t id) { std::vector<uint8_t> h(32, 0); h[0] = id; return h; }
inline AltBlock mkAlt(uint8_t id, uint8_t prev, int32_t height) { AltBlock b; b.hash = altHash(id); b.previousBlock = altHash(prev); b.height = height; b.timestamp = 1000 + 10 * height; return b; }
#ifdef VBK_KI
struct VPK : VbkChainParamsRegTest { uint32_t getKeystoneInterval() const noexcept override { return VBK_KI; } };   // small VBK keystone interval: POP fork resolution of VBK is reachable with short chains
#else
typedef VbkChainParamsRegTest VPK;
#endif
typedef BlockTree<VbkBlock, VbkChainParams> PlainVbkTree;
typedef BlockTree<BtcBlock, BtcChainParams> PlainBtcTree;
struct RealWorld {
  AP ap; VPK vp; BtcChainParamsRegTest bp; MemPayloads store; NoReader reader;
  AltBlockTree* alt = nullptr;
  // the "miner" side: plain SP trees in which the hand-made blocks are built (contextual header rules are applied here too)
  PlainVbkTree* mvbk = nullptr; PlainBtcTree* mbtc = nullptr;
  uint8_t nextVbk = 2, nextBtc = 2;
  VbkBlock vbkById[32]; BtcBlock btcById[32];
  // ALT side bookkeeping for the independent specification
  uint8_t parent[16] = {0}; int height[16] = {0}; int nalt = 1;
};
inline VbkBlock regtestVbkGenesis() { VbkBlock g = GetRegTestVbkBlock(); ((uint8_t*)g.hash_.data())[23] = 1; return g; }
inline RealWorld& newRealWorld() {
  auto& w = *new RealWorld();
  setMockTime(1700000000);
  w.alt = new AltBlockTree(w.ap, w.vp, w.bp, w.store, w.reader);
  w.alt->btc().bootstrapWithGenesis(GetRegTestBtcBlock());
  w.alt->vbk().bootstrapWithGenesis(regtestVbkGenesis());
  w.alt->bootstrap();
  w.mvbk = new PlainVbkTree(w.vp, w.reader);
  w.mvbk->bootstrapWithGenesis(regtestVbkGenesis());
  w.mbtc = new PlainBtcTree(w.bp, w.reader);
  w.mbtc->bootstrapWithGenesis(GetRegTestBtcBlock());
  w.vbkById[1] = regtestVbkGenesis();
  w.btcById[1] = GetRegTestBtcBlock();
  return w;
}
// mines VBK block number `id` on top of miner block `prevId` (header fields by the library's own template function, hash preset)
inline VbkBlock mineVbk(RealWorld& w, uint8_t prevId, const uint128& merkleRoot = uint128()) {
  auto* tip = w.mvbk->getBlockIndex(w.vbkById[prevId].getHash());
  VBK_ASSERT(tip != nullptr);
  Miner<VbkBlock, VbkChainParams> m(w.vp);
  VbkBlock b = m.getBlockTemplate(*tip, merkleRoot);
  uint8_t id = w.nextVbk++;
  b.nonce = id;
  b.timestamp = tip->getTimestamp() + 1;
  b.difficulty = getNextWorkRequired(*tip, b, static_cast<const VbkChainParams&>(w.vp));
  for (int i = 0; i < 24; i++) ((uint8_t*)b.hash_.data())[i] = 0;
  ((uint8_t*)b.hash_.data())[23] = id;
  ValidationState st;
  bool ok = w.mvbk->acceptBlockHeader(b, st);
  VBK_ASSERT(ok);
  w.vbkById[id] = b;
  return b;
}
// mines BTC block number `id` on top of miner block `prevId` (hash preset; display order: last byte = id)
inline BtcBlock mineBtc(RealWorld& w, uint8_t prevId, const uint256& merkleRoot = uint256(), bool realHash = false) {
  auto* tip = w.mbtc->getBlockIndex(w.btcById[prevId].getHash());
  VBK_ASSERT(tip != nullptr);
  Miner<BtcBlock, BtcChainParams> m(w.bp);
  BtcBlock b = m.getBlockTemplate(*tip, merkleRoot);
  uint8_t id = w.nextBtc++;
  b.nonce = id;
  b.timestamp = tip->getTimestamp() + 1;
  b.bits = getNextWorkRequired(*tip, b, static_cast<const BtcChainParams&>(w.bp));
  if (realHash) {   // persistence scenarios: BTC hashes are recomputed on load, so the block is really mined (regtest: a few nonces, concrete SHA-256)
    for (uint32_t n = (uint32_t)id << 8;; n++) { b.nonce = n; b.hash_ = uint256(); if (checkProofOfWork(b, w.bp)) break; }
  } else {
  for (int i = 0; i < 32; i++) ((uint8_t*)b.hash_.data())[i] = 0;
  ((uint8_t*)b.hash_.data())[31] = id;
  ((uint8_t*)b.hash_.data())[30] = 0x77;   // never collides with the real regtest genesis hash
  }
  ValidationState st;
  bool ok = w.mbtc->acceptBlockHeader(b, st);
  VBK_ASSERT(ok);
  w.btcById[id] = b;
  return b;
}
// a VTB: VBK block `endorsed` published in BTC block `bop` (with BTC context blocks ctxLo..bop-1), contained in VBK block `containing`
inline VTB makeVTB(RealWorld& w, uint8_t endorsed, uint8_t containing, uint8_t bop, uint8_t ctxLo, uint8_t salt) {
  VTB v;
  v.transaction.publishedBlock = w.vbkById[endorsed];
  v.transaction.blockOfProof = w.btcById[bop];
  for (uint8_t c = ctxLo; c && c < bop; c++) v.transaction.blockOfProofContext.push_back(w.btcById[c]);
  v.transaction.bitcoinTransaction.tx = std::vector<uint8_t>(4, salt);
  v.transaction.signature = std::vector<uint8_t>(8, salt);
  v.transaction.publicKey = std::vector<uint8_t>(8, 9);
  v.containingBlock = w.vbkById[containing];
  return v;
}
inline AltBlock addAltHeader(RealWorld& w, uint8_t id, uint8_t prev) {
  AltBlock b = mkAlt(id, prev, w.height[prev] + 1);
  ValidationState st;
  bool ok = w.alt->acceptBlockHeader(b, st);
  VBK_ASSERT(ok);
  w.parent[id] = prev; w.height[id] = w.height[prev] + 1; if (id > w.nalt) w.nalt = id;
  return b;
}
inline std::vector<uint8_t> altHeaderBytes(const AltBlock& b) {
  std::vector<uint8_t> v = b.hash;   // AP::getHash() = first 32 bytes
  v.insert(v.end(), b.previousBlock.begin(), b.previousBlock.end());
  return v;
}
// an ATV whose publication data endorses ALT block `endorsed` with the context info generated for ALT block `ctxOf`
// (honest: ctxOf == endorsed), carried by a VBK transaction mined into VBK block `containingVbk`
inline ATV makeATV(RealWorld& w, uint8_t endorsed, uint8_t ctxOf, uint8_t containingVbk, uint8_t salt) {
  ATV atv;
  auto* ei = w.alt->getBlockIndex(altHash(ctxOf));
  VBK_ASSERT(ei != nullptr);
  PopData none;
  AltBlock eb = mkAlt(endorsed, w.parent[endorsed], w.height[endorsed]);
  atv.transaction.publicationData = GeneratePublicationData(altHeaderBytes(eb), *ei, std::vector<uint8_t>(32, 0), none, std::vector<uint8_t>{salt, 2, 3}, w.ap);
  atv.transaction.signatureIndex = salt;
  atv.transaction.signature = std::vector<uint8_t>(8, salt);
  atv.transaction.publicKey = std::vector<uint8_t>(8, 7);
  atv.blockOfProof = w.vbkById[containingVbk];
  return atv;
}
// ---- statelessly VALID payloads (for the mempool's natural submit paths).  Everything is honest and computed with the real
// code (ids, SHA-256 transaction hashes, Merkle roots: each transaction is the only one of its block, so its path has no layers
// and the block's Merkle root is the transaction hash itself); only signature verification / address derivation are link-level
// oracles answering "valid" (see h_mempool.cpp MODE_SUBMIT).
inline ATV makeValidATV(RealWorld& w, uint8_t endorsedAlt, uint8_t prevVbk, uint8_t salt) {
  ATV atv;
  auto* ei = w.alt->getBlockIndex(altHash(endorsedAlt));
  VBK_ASSERT(ei != nullptr);
  PopData none;
  AltBlock eb = mkAlt(endorsedAlt, w.parent[endorsedAlt], w.height[endorsedAlt]);
  atv.transaction.networkOrType.networkType = w.vp.getTransactionMagicByte();
  atv.transaction.networkOrType.typeId = 1;
  atv.transaction.publicationData = GeneratePublicationData(altHeaderBytes(eb), *ei, std::vector<uint8_t>(32, 0), none, std::vector<uint8_t>{salt, 2, 3}, w.ap);
  atv.transaction.signatureIndex = salt;
  atv.transaction.signature = std::vector<uint8_t>(8, salt);
  atv.transaction.publicKey = std::vector<uint8_t>(8, 7);
  uint256 h = atv.transaction.getHash();
  atv.merklePath.treeIndex = 1; atv.merklePath.index = 0; atv.merklePath.subject = h;
  atv.blockOfProof = mineVbk(w, prevVbk, h.trim<16>());
  return atv;
}
// two statelessly valid ATVs carried by the SAME VBK block: a real two-leaf transaction tree (paths of 3 layers: sibling, the
// other transaction tree's root, the metapackage hash), root computed with the library's own calculateMerkleRoot
inline void makeValidATVPair(RealWorld& w, uint8_t endorsedAlt, uint8_t prevVbk, uint8_t salt1, uint8_t salt2, ATV& a1, ATV& a2) {
  auto* ei = w.alt->getBlockIndex(altHash(endorsedAlt));
  VBK_ASSERT(ei != nullptr);
  PopData none;
  AltBlock eb = mkAlt(endorsedAlt, w.parent[endorsedAlt], w.height[endorsedAlt]);
  ATV* as[2] = {&a1, &a2}; const uint8_t salts[2] = {salt1, salt2};
  for (int k = 0; k < 2; k++) {
    ATV& atv = *as[k];
    atv.transaction.networkOrType.networkType = w.vp.getTransactionMagicByte();
    atv.transaction.networkOrType.typeId = 1;
    atv.transaction.publicationData = GeneratePublicationData(altHeaderBytes(eb), *ei, std::vector<uint8_t>(32, 0), none, std::vector<uint8_t>{salts[k], 2, 3}, w.ap);
    atv.transaction.signatureIndex = salts[k];
    atv.transaction.signature = std::vector<uint8_t>(8, salts[k]);
    atv.transaction.publicKey = std::vector<uint8_t>(8, 7);
  }
  uint256 h1 = a1.transaction.getHash(), h2 = a2.transaction.getHash();
  a1.merklePath.treeIndex = 1; a1.merklePath.index = 0; a1.merklePath.subject = h1; a1.merklePath.layers = {h2, uint256(), uint256()};
  a2.merklePath.treeIndex = 1; a2.merklePath.index = 1; a2.merklePath.subject = h2; a2.merklePath.layers = {h1, uint256(), uint256()};
  uint128 root = a1.merklePath.calculateMerkleRoot();
  VBK_ASSERT(root == a2.merklePath.calculateMerkleRoot());
  a1.blockOfProof = mineVbk(w, prevVbk, root);
  a2.blockOfProof = a1.blockOfProof;
}
inline VTB makeValidVTB(RealWorld& w, uint8_t endorsedVbk, uint8_t prevVbk, uint8_t prevBtc, uint8_t salt) {
  VTB v;
  auto& tx = v.transaction;
  tx.networkOrType.networkType = w.vp.getTransactionMagicByte();
  tx.networkOrType.typeId = 2;
  tx.publishedBlock = w.vbkById[endorsedVbk];
  { WriteStream ws; tx.publishedBlock.toRaw(ws); tx.address.getPopBytes(ws); tx.bitcoinTransaction.tx = std::vector<uint8_t>(3, salt); tx.bitcoinTransaction.tx.insert(tx.bitcoinTransaction.tx.end(), ws.data().begin(), ws.data().end()); }
  uint256 bh = tx.bitcoinTransaction.getHash();
  tx.merklePath.index = 0; tx.merklePath.subject = bh;
  tx.blockOfProof = mineBtc(w, prevBtc, bh.reverse());
  tx.signature = std::vector<uint8_t>(8, salt);
  tx.publicKey = std::vector<uint8_t>(8, 9);
  uint256 h = tx.getHash();
  v.merklePath.treeIndex = 0; v.merklePath.index = 0; v.merklePath.subject = h;
  v.containingBlock = mineVbk(w, prevVbk, h.trim<16>());
  return v;
}
// the VBK tree's own payload index is EXACTLY the set {(VTB id, containing VBK block)} of the existing VBK blocks (both directions);
// a VTB id that occurs twice in one block (allowed at that level) is one pair
inline bool vbkIndexExact(AltBlockTree& t) {
  bool ok = true; size_t pairs = 0, inIndex = 0;
  for (auto* b : t.vbk().getBlocks()) {
    auto& ids = b->getPayloadIds<VTB>();
    for (size_t i = 0; i < ids.size(); i++) {
      ok = ok && t.vbk().getPayloadsIndex().find(ids[i].asVector()).count(b->getHash()) == 1;
      bool seen = false; for (size_t j = 0; j < i; j++) seen = seen || ids[j] == ids[i];
      pairs += !seen;
    }
  }
  for (auto& kv : t.vbk().getPayloadsIndex().getAll()) { ok = ok && !kv.second.empty(); for (auto& h : kv.second) { ok = ok && t.vbk().getBlockIndex(h) != nullptr; inIndex++; } }
  return ok && inIndex == pairs;
}
inline bool isAltAncestorOrSelf(const RealWorld& w, int a, int x) { while (x) { if (x == a) return true; x = w.parent[x]; } return false; }
}  // namespace vr
