// F-BTC: the real BlockTree<BtcBlock, BtcChainParams> with a harness parameter class (only virtual knobs overridden)
// and real BtcBlocks whose memoised hash is preset (no SHA-256): block id k has hash {k,0,...,0}.
#pragma once
#include <veriblock/pop/blockchain/blocktree.hpp>
#include <veriblock/pop/blockchain/btc_blockchain_util.hpp>
#include <veriblock/pop/blockchain/btc_chain_params.hpp>
#include <veriblock/pop/entities/btcblock.hpp>
#include <veriblock/pop/storage/block_reader.hpp>
#include <veriblock/pop/time.hpp>
namespace vh {
using namespace altintegration;
struct BtcP : BtcChainParamsRegTest {};
typedef BlockTree<BtcBlock, BtcChainParams> BtcTree;
typedef BlockIndex<BtcBlock> BtcIndex;
static const uint32_t EASY_BITS = 0x207fffff;
inline uint256 btcHash(uint8_t id) {
  uint256 h;
  ((uint8_t*)h.data())[0] = id;
  return h;
}
inline BtcBlock mkBtc(uint8_t id, uint8_t prev, uint32_t t, uint32_t bits = EASY_BITS) {
  BtcBlock b;
  b.version = 1;
  ((uint8_t*)b.previousBlock.data())[0] = prev;
  b.timestamp = t;
  b.bits = bits;
  b.nonce = id;
  ((uint8_t*)b.hash_.data())[0] = id;  // preset memoised hash
  return b;
}
inline const BlockReader& dummyReader() { return *(const BlockReader*)(new uint64_t[8]()); }  // never dereferenced on these paths (partial object)
inline BtcTree& newBtcTree(BtcChainParams& p) { return *new BtcTree(p, dummyReader()); }
inline BtcIndex* idx(BtcTree& t, uint8_t id) { return t.getBlockIndex(btcHash(id)); }
inline uint8_t idOf(const BtcIndex* i) { return i ? ((const uint8_t*)i->getHash().data())[0] : 0; }

// Builds: genesis id 1 at height 0, then n-1 blocks with ids 2..n whose parents are symbolic (any earlier block).
// Timestamps increase with the id so that median-time-past never rejects. Returns number of blocks accepted.
template <typename Tree>
inline int buildSymbolicTree(Tree& t, int n, uint8_t* parentOut) {
  setMockTime(100000);  // the clock is under harness control (library hook for tests)
  t.bootstrapWithGenesis(mkBtc(1, 0, 1000));
  int acc = 1;
  parentOut[1] = 0;
  for (int id = 2; id <= n; id++) {
    uint8_t par = (uint8_t)verif_range(1, id - 1);
    parentOut[id] = par;
    ValidationState st;
    bool ok = t.acceptBlockHeader(mkBtc((uint8_t)id, par, 1000 + 10 * id), st);
    verif_check(ok, 900 + id);  // a well-formed header on a valid parent is accepted
    if (ok) acc++;
  }
  return acc;
}

// structural invariants shared by C07/C08/C09 (tree = any BaseBlockTree instantiation)
template <typename Tree>
inline void checkStructure(Tree& t, int base, const typename Tree::index_t* finalBlock = nullptr) {
  typedef typename Tree::index_t I;
  auto blocks = t.getBlocks();
  for (I* b : blocks) {
    if (b->pprev) {
      verif_check(b->getHeight() == b->pprev->getHeight() + 1, base + 1);       // heights follow parents
      verif_check(b->pprev->pnext.count(b) == 1, base + 2);                     // links are mutual
      if (b->pprev->isFailed()) verif_check(b->isFailed(), base + 3);           // descendants of a failed block are failed
      if (b->isValid()) verif_check(b->pprev->isValid(), base + 4);             // valid => ancestors valid
    }
    // tip set == usable blocks without usable child (after finalization a block that forks off below the final block is no longer usable)
    verif_check((t.getTips().count(b) > 0) == (b->isValidTip() && !(finalBlock && isBlockOutdated(*finalBlock, *b))), base + 5);
  }
  for (I* tip : t.getTips()) verif_check(tip != nullptr && !tip->isDeleted(), base + 6);
  auto& chain = t.getBestChain();
  I* tip = chain.tip();
  verif_check(tip != nullptr, base + 7);
  if (!tip) return;
  I* prev = nullptr;
  for (I* b : chain) {
    verif_check(b != nullptr && b->isValid() && !b->isDeleted(), base + 8);     // best chain only through valid blocks
    if (prev) verif_check(b->pprev == prev, base + 9);                           // contiguous root..tip
    prev = b;
  }
  verif_check(prev == tip, base + 10);
  verif_check(chain.first() != nullptr && chain.first()->pprev == nullptr, base + 11);
}
}  // namespace vh
