import srcsets
BTC_TREE = srcsets.SERDE + ['src/pop/blockchain/btc_blockchain_util.cpp', 'src/pop/blockchain/btc_block_addon.cpp', 'src/pop/stateless_validation.cpp',
                            'src/pop/blockchain/pop/pop_state.cpp', 'src/pop/storage/stored_btc_block_addon.cpp', 'src/pop/blockchain/vbk_block_addon.cpp', 'src/pop/storage/stored_vbk_block_addon.cpp']
