import glob, os, srcsets
REPO = os.environ.get('VERIF_REPO', '/repo')
REAL = sorted(set(srcsets.SERDE + ['src/pop/' + f[len(REPO + '/src/pop/'):] for f in glob.glob(REPO + '/src/pop/blockchain/**/*.cpp', recursive=True)] +
                  ['src/pop/stateless_validation.cpp', 'src/pop/alt-util.cpp', 'src/pop/mempool.cpp', 'src/pop/mempool_relations.cpp', 'src/pop/command_group_cache.cpp', 'src/pop/bootstraps.cpp',
                   'src/pop/storage/payloads_provider.cpp', 'src/pop/storage/util.cpp', 'src/pop/storage/stored_alt_block_addon.cpp', 'src/pop/storage/stored_btc_block_addon.cpp',
                   'src/pop/storage/stored_vbk_block_addon.cpp', 'src/pop/rewards/default_poprewards_calculator.cpp', 'src/pop/crypto/vblake.cpp', 'src/pop/config.cpp']))
