// F-TT: a two-level POP system assembled from the library's real templates.
//   protecting tree = real BlockTree<BtcBlock, BtcChainParams>
//   protected tree  = ToyEd : real BlockTree<EdBlock, EdParams>, driven by the real PopAwareForkResolutionComparator /
//                     PopStateMachine / CommandGroup / AddBlock / AddEndorsement.
// Harness-written (not under test): EdBlock/EdAddon/EdParams declarations, the command-group store (what each ED block
// carries), and ToyEd::setState/comparePopScore which copy the bodies of AltBlockTree::setState/comparePopScore/overrideTip.
#pragma once
struct EdBlock;
namespace altintegration {
template <typename B> struct BlockIndex;
namespace detail {
template <typename PL> inline void PLIAddBlock(PL&, const BlockIndex<EdBlock>&) {}
template <typename PL> inline void PLIRemoveBlock(PL&, const BlockIndex<EdBlock>&) {}
}  // namespace detail
}  // namespace altintegration
#include <veriblock/pop/blockchain/blocktree.hpp>
#include <veriblock/pop/blockchain/btc_blockchain_util.hpp>
#include <veriblock/pop/blockchain/btc_chain_params.hpp>
#include <veriblock/pop/blockchain/pop/pop_state.hpp>
#include <veriblock/pop/entities/btcblock.hpp>
#include <veriblock/pop/entities/endorsements.hpp>
#include <veriblock/pop/time.hpp>
namespace vt {
using namespace altintegration;
using EdEndorsement = VbkEndorsement;  // the real BtcBlockAddon stores pointers of exactly this type
}
#include <veriblock/pop/blockchain/commands/addblock.hpp>
#include <veriblock/pop/blockchain/commands/addendorsement.hpp>
#include <veriblock/pop/blockchain/pop/fork_resolution.hpp>

struct EdAddon : altintegration::PopState<vt::EdEndorsement> {
  altintegration::ArithUint256 chainWork = 0;
  static constexpr auto validTipLevel = altintegration::BLOCK_VALID_TREE;
  uint32_t ngroups = 0;
  bool hasPayloads() const { return ngroups > 0; }
  void setNull() { altintegration::PopState<vt::EdEndorsement>::setNull(); chainWork = 0; }
  void setNullInmemFields() { chainWork = 0; _endorsedBy.clear(); }
  void setIsBootstrap(bool) {}
  void clearBlockOfProofEndorsement() {}
  std::string toPrettyString() const { return ""; }
  void toVbkEncoding(altintegration::WriteStream&) const {}
};
struct EdStored {
  EdStored() = default;
  EdStored(const EdAddon&) {}
  void toInmem(EdAddon&) const {}
  void toVbkEncoding(altintegration::WriteStream&) const {}
  std::string toPrettyString() const { return ""; }
};
struct EdBlock {
  using hash_t = altintegration::uint192;
  using prev_hash_t = altintegration::uint192;
  using height_t = int32_t;
  using addon_t = EdAddon;
  using stored_addon_t = EdStored;
  hash_t hash, prev;
  uint32_t time = 0, bits = 0;
  const hash_t& getHash() const { return hash; }
  const prev_hash_t& getPreviousBlock() const { return prev; }
  uint32_t getTimestamp() const { return time; }
  uint32_t getDifficulty() const { return bits; }
  static const std::string& name() { static std::string n = "ED"; return n; }
  std::string toPrettyString() const { return ""; }
  void toRaw(altintegration::WriteStream&) const {}
  friend bool operator==(const EdBlock& a, const EdBlock& b) { return a.hash == b.hash; }
};
struct EdParams {
  std::vector<uint32_t> table{100, 100, 95, 89, 80, 69, 56, 40, 21};
  uint32_t ki = 2;
  uint32_t finalityDelay = 100;
  int32_t settlement = 3;
  int32_t maxReorg = 1000;
  uint32_t preserve = 4;
  uint32_t getKeystoneInterval() const { return ki; }
  uint32_t getFinalityDelay() const { return finalityDelay; }
  const std::vector<uint32_t>& getForkResolutionLookUpTable() const { return table; }
  int32_t getEndorsementSettlementInterval() const { return settlement; }
  int32_t getMaxReorgBlocks() const { return maxReorg; }
  uint32_t preserveBlocksBehindFinal() const { return preserve; }
  int32_t getOldBlocksWindow() const { return 1000; }
  uint32_t numBlocksForBootstrap() const { return 1; }
};
namespace altintegration {
template <> inline void PopState<vt::EdEndorsement>::setDirty() { static_cast<BlockIndex<EdBlock>*>(static_cast<EdAddon*>(this))->setDirty(); }
inline bool checkBlock(const EdBlock&, ValidationState&, const EdParams&) { return true; }
template <> inline bool contextuallyCheckBlock(const BlockIndex<EdBlock>&, const EdBlock&, ValidationState&, const EdParams&, bool) { return true; }
template <> inline ArithUint256 getBlockProof(const EdBlock&) { return 1; }
template <> inline void assertBlockCanBeRemoved(const BlockIndex<BtcBlock>& index) { VBK_ASSERT(index.getBlockOfProofEndorsement().empty()); }
}  // namespace altintegration

namespace vt {
struct ToyEd;
struct ToyStore {
  using command_groups_t = std::vector<std::unique_ptr<CommandGroup>>;
  ToyEd& t;
  explicit ToyStore(ToyEd& t) : t(t) {}
  std::unique_ptr<command_groups_t> getCommands(const BlockIndex<EdBlock>& b, ValidationState&);
};
struct BtcP : BtcChainParamsRegTest {};
static const int MAXED = 10;
// one command group: [AddBlock(btcId on btcPrev)] [AddEndorsement(endorsed ED id, block of proof btc id)], plus an always
// failing command at position failPos (1 = first, 2 = after the first real command, 3 = last; 0 = none)
struct GroupSpec { uint8_t btcId = 0, btcPrev = 0, endorsed = 0, bop = 0, failPos = 0; bool present = false; };
struct FailCmd : Command {
  bool Execute(ValidationState& s) noexcept override { return s.Invalid("fail"); }
  void UnExecute() noexcept override { VBK_ASSERT(false && "a command that never executed must not be un-executed"); }
};
inline const BlockReader& dummyReader() { return *(const BlockReader*)(new uint64_t[8]()); }
inline PayloadsStorage& dummyStorage() { return *(PayloadsStorage*)(new uint64_t[8]()); }
inline uint256 btcHash(uint8_t id) { uint256 h; ((uint8_t*)h.data())[0] = id; return h; }
inline uint192 edHash(uint8_t id) { uint192 h; ((uint8_t*)h.data())[0] = id; return h; }
inline BtcBlock mkBtc(uint8_t id, uint8_t prev) {
  BtcBlock b;
  b.version = 1;
  ((uint8_t*)b.previousBlock.data())[0] = prev;
  b.timestamp = 1000;  // equal timestamps: median-time-past never rejects
  b.bits = 0x207fffff;
  b.nonce = id;
  ((uint8_t*)b.hash_.data())[0] = id;
  return b;
}
struct ToyEd : BlockTree<EdBlock, EdParams> {
  using base = BlockTree<EdBlock, EdParams>;
  using BtcTree = BlockTree<BtcBlock, BtcChainParams>;
  using command_group_store_t = ToyStore;
  using Cmp = PopAwareForkResolutionComparator<EdBlock, EdParams, BtcTree, ToyEd>;
  Cmp cmp_;
  ToyStore store_;
  GroupSpec spec[MAXED + 1][2];
  ToyEd(const EdParams& p, const BtcChainParams& bp)
      : base(p, dummyReader()), cmp_(*this, std::make_shared<BtcTree>(bp, dummyReader()), p, dummyStorage()), store_(*this) {}
  command_group_store_t& getCommandGroupStore() { return store_; }
  BtcTree& btc() { return cmp_.getProtectingBlockTree(); }
  // --- bodies copied from AltBlockTree::setState / overrideTip / comparePopScore / determineBestChain
  bool setState(index_t& to, ValidationState& state) override {
    VBK_ASSERT_MSG(to.isConnected(), "must be connected");
    bool success = cmp_.setState(to, state);
    if (success) {
      VBK_ASSERT_MSG(to.isValid(BLOCK_CAN_BE_APPLIED), "the active chain tip must be fully valid");
      base::overrideTip(to);
    } else {
      VBK_ASSERT_MSG(!to.isValid(), "if setState failed, then the target must be invalid");
    }
    VBK_ASSERT(appliedBlockCount == activeChain_.blocksCount());
    return success;
  }
  void determineBestChain(index_t&, ValidationState&) override {}
  int comparePopScore(index_t& cand) {
    VBK_ASSERT(activeChain_.tip());
    VBK_ASSERT(cand.isConnected());
    ValidationState st;
    auto p = cmp_.comparePopScore(cand, st);
    if (p.first < 0) activeChain_.setTip(&cand);
    lastOutcome = p.second;
    return p.first;
  }
  PopFrOutcome lastOutcome = PopFrOutcome::UNKNOWN;
  index_t* ed(uint8_t id) { return getBlockIndex(edHash(id)); }
  BtcTree::index_t* bt(uint8_t id) { return btc().getBlockIndex(btcHash(id)); }
};
inline std::unique_ptr<ToyStore::command_groups_t> ToyStore::getCommands(const BlockIndex<EdBlock>& b, ValidationState&) {
  auto gs = make_unique<command_groups_t>();
  uint8_t id = b.getHash().data()[0];
  for (int g = 0; g < 2; g++) {
    const GroupSpec& sp = t.spec[id][g];
    if (!sp.present) continue;
    auto cg = make_unique<CommandGroup>();
    cg->id = std::vector<uint8_t>{id, (uint8_t)g};
    int pos = 1;
    if (sp.failPos == pos) cg->commands.push_back(std::make_shared<FailCmd>());
    if (sp.btcId) {
      cg->commands.push_back(std::make_shared<AddBlock<BtcBlock, BtcChainParams>>(t.btc(), std::make_shared<BtcBlock>(mkBtc(sp.btcId, sp.btcPrev)), b.getHeight()));
      pos++;
      if (sp.failPos == pos) cg->commands.push_back(std::make_shared<FailCmd>());
    }
    if (sp.endorsed) {
      auto e = std::make_shared<EdEndorsement>();
      ((uint8_t*)e->id.data())[0] = id;
      ((uint8_t*)e->id.data())[1] = (uint8_t)(g + 1);
      e->endorsedHash = edHash(sp.endorsed);
      e->containingHash = b.getHash();
      e->blockOfProof = btcHash(sp.bop);
      cg->commands.push_back(std::make_shared<AddEndorsement<ToyEd::BtcTree, ToyEd>>(t.btc(), t, e));
      pos++;
      if (sp.failPos == pos) cg->commands.push_back(std::make_shared<FailCmd>());
    }
    if (sp.failPos >= 3 && sp.failPos > pos) cg->commands.push_back(std::make_shared<FailCmd>());
    gs->push_back(std::move(cg));
  }
  return gs;
}

struct World {
  EdParams* ep;
  BtcP* bp;
  ToyEd* t;
  int ned = 1;
  uint8_t parent[MAXED + 2] = {0};
  int height[MAXED + 2] = {0};
};
inline World& newWorld() {
  auto& w = *new World();
  w.ep = new EdParams();
  w.bp = new BtcP();
  setMockTime(100000);
  w.t = new ToyEd(*w.ep, *w.bp);
  w.t->btc().bootstrapWithGenesis(mkBtc(1, 0));
  EdBlock g;
  g.hash = edHash(1);
  w.t->bootstrapWithGenesis(g);
  return w;
}
inline ToyEd::index_t* addEd(World& w, uint8_t id, uint8_t prev) {
  auto b = std::make_shared<EdBlock>();
  b->hash = edHash(id);
  b->prev = edHash(prev);
  ValidationState s;
  bool ok = w.t->acceptBlockHeader(b, s);
  VBK_ASSERT(ok);
  w.parent[id] = prev;
  w.height[id] = w.height[prev] + 1;
  if (id > w.ned) w.ned = id;
  auto* i = w.t->getBlockIndex(b->hash);
  i->ngroups = (w.t->spec[id][0].present ? 1 : 0) + (w.t->spec[id][1].present ? 1 : 0);
  return i;
}
inline bool isAncestorOrSelf(const World& w, int a, int x) {
  while (x) { if (x == a) return true; x = w.parent[x]; }
  return false;
}

// ---------------------------------------------------------------------------------------------------------------------
// Independent specification: is block x contextually valid when root..x alone is applied?  (plain integers)
struct Sim {
  bool btc[256];           // BTC block ids present
  uint8_t btcPrevOf[256];
  int refs[256];
  void init() { for (int i = 0; i < 256; i++) { btc[i] = false; refs[i] = 0; btcPrevOf[i] = 0; } btc[1] = true; refs[1] = 1000000; }
};
// applies the groups of block x to the simulated SP state; returns false if some command must fail (state then = before)
inline bool simApplyBlock(const World& w, Sim& s, int x) {
  Sim saved = s;
  for (int g = 0; g < 2; g++) {
    GroupSpec sp = w.t->spec[x][g];
    if (!sp.present) continue;
    // the specification runs on concrete numbers: case split on the (possibly symbolic) placement fields
    sp.btcPrev = (uint8_t)__verif_concretize(sp.btcPrev);
    sp.endorsed = (uint8_t)__verif_concretize(sp.endorsed);
    sp.bop = (uint8_t)__verif_concretize(sp.bop);
    bool ok = true;
    int pos = 1;
    if (sp.failPos == pos) ok = false;
    if (ok && sp.btcId) {
      if (!s.btc[sp.btcId]) {
        if (!s.btc[sp.btcPrev]) ok = false;  // header does not connect
        else { s.btc[sp.btcId] = true; s.btcPrevOf[sp.btcId] = sp.btcPrev; }
      } else if (s.btcPrevOf[sp.btcId] != sp.btcPrev && sp.btcId != 1) {
        // same id offered with another parent: the existing block is referenced (hash identity), harness avoids this
      }
      if (ok) s.refs[sp.btcId]++;
      pos++;
      if (ok && sp.failPos == pos) ok = false;
    }
    if (ok && sp.endorsed) {
      int e = sp.endorsed;
      bool known = e >= 1 && e <= w.ned;
      if (!known) ok = false;
      else if (!isAncestorOrSelf(w, e, x)) ok = false;                       // endorsed block not on the containing block's chain
      else if (w.height[x] - w.height[e] > w.ep->settlement) ok = false;     // expired
      else if (!s.btc[sp.bop]) ok = false;                                   // block of proof unknown
      pos++;
      if (ok && sp.failPos == pos) ok = false;
    }
    if (ok && sp.failPos >= 3 && sp.failPos > pos) ok = false;
    if (!ok) { s = saved; return false; }
  }
  return true;
}
// valid-on-its-own-ancestry: every block root..x applies in order
inline bool simChainValid(const World& w, int x) {
  int path[MAXED + 2], n = 0;
  for (int i = x; i; i = w.parent[i]) path[n++] = i;
  Sim s;
  s.init();
  for (int k = n - 2; k >= 0; k--)
    if (!simApplyBlock(w, s, path[k])) return false;
  return true;
}
inline int simFirstInvalid(const World& w, int x) {
  int path[MAXED + 2], n = 0;
  for (int i = x; i; i = w.parent[i]) path[n++] = i;
  Sim s;
  s.init();
  for (int k = n - 2; k >= 0; k--)
    if (!simApplyBlock(w, s, path[k])) return path[k];
  return 0;
}

// ---------------------------------------------------------------------------------------------------------------------
// Observable digest of both trees (order independent). maskBranchOf: ED blocks on root..maskBranchOf and their descendants
// have validity marks / FAILED bits masked (the exception the atomicity property grants to the target branch).  The
// subtree of the first block of that branch that is invalid on its own ancestry is masked as well: invalidating a block
// marks ALL its descendants FAILED_CHILD, including siblings of the target (first seen with 4-block trees).
inline uint64_t mix(uint64_t h, uint64_t v) { h ^= v + 0x9e3779b97f4a7c15ull + (h << 6) + (h >> 2); return h * 0x100000001b3ull; }
inline uint64_t digest(World& w, int maskBranchOf, bool includeSpBest, bool maskAllFailed = false) {
  ToyEd& t = *w.t;
  uint64_t sum = 0;
  int bad = maskBranchOf ? simFirstInvalid(w, maskBranchOf) : 0;
  for (auto* b : t.getBlocks()) {
    uint8_t id = b->getHash().data()[0];
    uint64_t h = mix(7, id);
    uint32_t st = b->getStatus();
    bool masked = maskBranchOf && (isAncestorOrSelf(w, id, maskBranchOf) || isAncestorOrSelf(w, maskBranchOf, id) || (bad && isAncestorOrSelf(w, bad, id))) && id != 1;
    // validity level raises are monotone bookkeeping; compare FAILED bits and ACTIVE
    uint32_t flags = st & (BLOCK_FAILED_MASK | BLOCK_ACTIVE | BLOCK_DELETED);
    if (masked || maskAllFailed) flags &= ~(uint32_t)BLOCK_FAILED_MASK;
    h = mix(h, flags);
    h = mix(h, (uint64_t)b->getHeight());
    uint64_t es = 0;
    for (auto& kv : b->getContainingEndorsements()) es += mix(11, kv.first.data()[0] * 256 + kv.first.data()[1]);
    h = mix(h, es);
    uint64_t eb = 0;
    for (auto* e : b->getEndorsedBy()) eb += mix(13, e->id.data()[0] * 256 + e->id.data()[1]);
    h = mix(h, eb);
    sum += h;
  }
  for (auto* b : t.btc().getBlocks()) {
    uint8_t id = b->getHash().data()[0];
    uint64_t h = mix(17, id);
    h = mix(h, b->getStatus() & (BLOCK_FAILED_MASK | BLOCK_DELETED));
    uint64_t rs = 0;
    for (auto r : b->getRefs()) rs += mix(19, (uint64_t)r);
    h = mix(h, rs);
    h = mix(h, b->refCount());
    uint64_t bo = 0;
    for (auto* e : b->getBlockOfProofEndorsement()) bo += mix(23, e->id.data()[0] * 256 + e->id.data()[1]);
    h = mix(h, bo);
    sum += h;
  }
  uint64_t tips = 0;
  for (auto* b : t.btc().getTips()) tips += mix(29, b->getHash().data()[0]);
  sum = mix(sum, tips);
  sum = mix(sum, t.getBestChain().tip()->getHash().data()[0]);
  sum = mix(sum, t.appliedBlockCount);
  if (includeSpBest) sum = mix(sum, t.btc().getBestChain().tip()->getHash().data()[0]);
  return sum;
}
// is the SP best chain determined by work alone (no exact tie among tips)?
inline bool spBestIsUnique(World& w) {
  auto& bt = w.t->btc();
  auto* best = bt.getBestChain().tip();
  for (auto* tip : bt.getTips())
    if (tip != best && tip->chainWork == best->chainWork) return false;
  return true;
}
// exactly root..tip applied, counters agree, tip fully valid
inline void checkApplied(World& w, int base) {
  ToyEd& t = *w.t;
  auto* tip = t.getBestChain().tip();
  size_t active = 0;
  for (auto* b : t.getBlocks()) {
    bool onChain = t.getBestChain().contains(b);
    verif_check(b->hasFlags(BLOCK_ACTIVE) == onChain, base + 1);   // exactly the blocks root..tip are applied
    if (onChain) active++;
  }
  verif_check(t.appliedBlockCount == active, base + 2);
  verif_check(t.appliedBlockCount == t.getBestChain().blocksCount(), base + 3);
  verif_check(tip->isValid(BLOCK_CAN_BE_APPLIED), base + 4);        // the tip is fully valid
  // SP side: a BTC block exists exactly while something references it
  for (auto* b : t.btc().getBlocks()) verif_check(b->refCount() > 0 || b->getHash().data()[0] == 1, base + 5);
}
}  // namespace vt
