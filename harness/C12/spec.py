import os, sys
sys.path.insert(0, os.path.join(os.path.dirname(os.path.abspath(__file__)), '..', 'common'))
import srcsets
HARNESSES = [
    {'name': 'h_count', 'src': 'C12/h_count.cpp', 'entry': 'h_count', 'repo_srcs': srcsets.SERDE, 'covers': [1, 2], 'jobs': 8,
     'obligations': ['CountingContext (real header) admits only payloads that keep PopData inside the configured count limits',
                     'CountingContext admits only payloads that keep the real PopData size formula (version + three count-prefixed arrays) <= getMaxPopDataSize(), from every state satisfying the class invariant (counts up to 1000, crossing the 255/256 prefix boundary)'],
     'rungs': {'quick': [{'defines': ['NSTEP=2'], 'bound': 'arbitrary admitted state (counts 0..1000/300/300, sizes 0..100000, limits symbolic) followed by 2 canFit/update steps with payload sizes 1..5000', 'timeout': 250}],
               'thorough': [{'defines': ['NSTEP=4'], 'bound': 'as quick with 4 steps', 'timeout': 2400, 'jobs': 16}, {'defines': ['NSTEP=3'], 'bound': '3 steps', 'timeout': 900, 'jobs': 16}]}},
]
import importlib.util as _ilu
_rp = _ilu.spec_from_file_location('realspec', os.path.join(os.path.dirname(os.path.abspath(__file__)), '..', 'real', 'spec.py'))
_real = _ilu.module_from_spec(_rp); _rp.loader.exec_module(_real)
HARNESSES += [x for x in _real.MEMPOOL_HARNESSES if x['name'] in ('h_mempool_vbk', 'h_mempool_reject', 'h_mempool_submit', 'h_mempool_limits', 'h_mempool_vbktie', 'h_mempool_timely', 'h_mempool_vtbfork')]
EXPLANATION = 'The real CountingContext header runs symbolically from an arbitrary invariant-satisfying state (inductive step), so block limits are decided for PopData of any length.'
ASSUMPTIONS = ['toy payload types with symbolic estimateSize(); stateful validity of generatePopData() on the real tip and side-effect freedom of the temporary block are outside (generic rollback mechanisms are decided in C01/C02/C07)']
