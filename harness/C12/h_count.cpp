// C12 H-COUNT (F-SLICE): the REAL header counting_context.hpp compiled against toy payload types with symbolic
// estimateSize(); the three headers it includes are skipped by pre-defining their guards.  From an arbitrary state that
// satisfies the class invariant (what was admitted so far fits), every canFit/update step must keep the real PopData
// size formula (version + three length-prefixed arrays) and the counts inside the configured limits, i.e.
// assertPopDataFits() can never fire on what the context admitted.
#define ALT_INTEGRATION_INCLUDE_VERIBLOCK_BLOCKCHAIN_ALT_CHAIN_PARAMS_HPP_
#define ALTINTEGRATION_COMMANDGROUP_HPP
#define ALT_INTEGRATION_INCLUDE_VERIBLOCK_ENTITIES_ALT_POP_TRANSACTION_HPP_
#include <veriblock/pop/serde.hpp>
namespace altintegration {
struct ATV { size_t sz; size_t estimateSize() const { return sz; } };
struct VTB { size_t sz; size_t estimateSize() const { return sz; } };
struct VbkBlock { size_t sz; size_t estimateSize() const { return sz; } };
struct PopData { uint32_t version = 1; };
struct AltChainParams {
  size_t maxSize, maxVbk, maxVtb, maxAtv;
  size_t getMaxPopDataSize() const { return maxSize; }
  size_t getMaxVbkBlocksInAltBlock() const { return maxVbk; }
  size_t getMaxVTBsInAltBlock() const { return maxVtb; }
  size_t getMaxATVsInAltBlock() const { return maxAtv; }
};
}  // namespace altintegration
#include <veriblock/pop/blockchain/pop/counting_context.hpp>
using namespace altintegration;
#ifndef NSTEP
#define NSTEP 2
#endif
// the size PopData::estimateSize() reports for what has been admitted (version + 3 arrays, each with a count prefix)
static size_t popDataSize(const CountingContext& c) {
  return sizeof(uint32_t) + singleBEValueSize((int64_t)c.vbks) + c.vbks_size + singleBEValueSize((int64_t)c.vtbs) + c.vtbs_size + singleBEValueSize((int64_t)c.atvs) + c.atvs_size;
}
extern "C" __attribute__((noinline)) void h_count() {
  auto& p = *new AltChainParams();
  p.maxSize = verif_range(16, 100000);
  p.maxVbk = verif_range(0, 300); p.maxVtb = verif_range(0, 300); p.maxAtv = verif_range(0, 1000);
  auto& c = *new CountingContext(p);
  // arbitrary reachable state: counts within limits, sizes consistent, everything admitted so far fits
  c.atvs = verif_range(0, 1000); c.vtbs = verif_range(0, 300); c.vbks = verif_range(0, 300);
  c.atvs_size = verif_range(0, 100000); c.vtbs_size = verif_range(0, 100000); c.vbks_size = verif_range(0, 100000);
  verif_assume(c.atvs <= p.maxAtv && c.vtbs <= p.maxVtb && c.vbks <= p.maxVbk);
  verif_assume(c.atvs_size >= c.atvs && c.vtbs_size >= c.vtbs && c.vbks_size >= c.vbks);   // every payload has at least 1 byte
  verif_assume(popDataSize(c) <= p.maxSize);
  for (int i = 0; i < NSTEP; i++) {
    uint32_t kind = verif_choice(0, 2);
    size_t sz = verif_range(1, 5000);
    bool fit;
    if (kind == 0) { ATV x{sz}; fit = c.canFit(x); if (fit) c.update(x); }
    else if (kind == 1) { VTB x{sz}; fit = c.canFit(x); if (fit) c.update(x); }
    else { VbkBlock x{sz}; fit = c.canFit(x); if (fit) c.update(x); }
    verif_check(c.atvs <= p.maxAtv && c.vtbs <= p.maxVtb && c.vbks <= p.maxVbk, 1);   // count limits
    verif_check(popDataSize(c) <= p.maxSize, 2);                                        // byte limit on the real size formula
    if (fit) verif_cover(1); else verif_cover(2);
  }
}
