// F-REAL / persistence harness (C10): the REAL three trees are saved with saveTrees() through the library's own adaptors
// (BlockBatchImpl / BlockReaderImpl over InmemStorageImpl, i.e. every index goes through toVbkEncoding and back) and loaded
// into a FRESH AltBlockTree with loadTrees(); the loaded instance must be observably equivalent: same blocks, heights, status
// (validity, FAILED bits, ACTIVE / CAN_BE_APPLIED), payload ids, endorsements, reference counts, tips and best chains in all
// three trees - and must behave the same afterwards (same verdict and same state after one more operation on both).
// Histories: a scenario is built (forks, VBK context, a VTB, ATVs, an invalid block), saved, optionally continued (more
// blocks / switch / invalidation) and saved AGAIN (only dirty indices are written), then loaded.
#include "common/real_env.hpp"
#include <veriblock/pop/storage/util.hpp>
#include <veriblock/pop/storage/adaptors/inmem_storage_impl.hpp>
#include <veriblock/pop/storage/adaptors/block_provider_impl.hpp>
using namespace vr;
#ifdef DBG
#include <cstdio>
#endif
namespace altintegration { namespace progpow { void insertHeaderCacheEntry(Slice<const uint8_t>, VbkBlock::hash_t) {} } }   // the progpow header cache is outside (C17)
static uint64_t mixh(uint64_t h, uint64_t v) { h ^= v + 0x9e3779b97f4a7c15ull + (h << 6) + (h >> 2); return h * 0x100000001b3ull; }
template <typename V> static uint64_t idsum(const V& ids) { uint64_t s = 0; for (auto& i : ids) { uint64_t h = 31; for (auto b : i) h = mixh(h, b); s += h; } return mixh(s, ids.size()); }
// digest of one tree instance: per block and per tree observables; `what` selects a component so that a mismatch names it
static uint64_t digestAlt(AltBlockTree& t, int what) {
  uint64_t sum = 0;
  for (auto* b : t.getBlocks()) {
    uint64_t h = mixh(3, b->getHash()[0]);
    if (what == 0) h = mixh(h, b->getStatus());
    if (what == 1) h = mixh(h, (uint64_t)b->getHeight() * 7 + (b->pprev ? b->pprev->getHash()[0] : 0));
    if (what == 2) { h = mixh(h, idsum(b->getPayloadIds<ATV>())); h = mixh(h, idsum(b->getPayloadIds<VTB>())); h = mixh(h, idsum(b->getPayloadIds<VbkBlock>())); }
    if (what == 3) { uint64_t e = 0; for (auto& kv : b->getContainingEndorsements()) e += mixh(11, kv.second->endorsedHash[0] * 256 + kv.second->blockOfProof[23]); h = mixh(h, e); uint64_t eb = 0; for (auto* x : b->getEndorsedBy()) eb += mixh(13, x->containingHash[0]); h = mixh(h, eb); }
    sum += h;
  }
  if (what == 4) { sum = mixh(sum, t.getBestChain().tip()->getHash()[0]); uint64_t tips = 0; for (auto* x : t.getTips()) tips += mixh(17, x->getHash()[0]); sum = mixh(sum, tips); sum = mixh(sum, t.getBlocks().size()); }
  return sum;
}
static uint64_t digestVbk(AltBlockTree& t, int what) {
  uint64_t sum = 0;
  for (auto* b : t.vbk().getBlocks()) {
    uint64_t h = mixh(5, b->getHash().data()[23]);
    if (what == 0) h = mixh(h, b->getStatus());
    if (what == 1) h = mixh(h, (uint64_t)b->getHeight() * 7 + b->refCount());
    if (what == 2) h = mixh(h, idsum(b->getPayloadIds<VTB>()));
    if (what == 3) { uint64_t e = 0; for (auto& kv : b->getContainingEndorsements()) e += mixh(11, kv.second->endorsedHash.data()[23]); h = mixh(h, e); uint64_t eb = 0; for (auto* x : b->getEndorsedBy()) eb += mixh(13, x->containingHash.data()[23]); h = mixh(h, eb); uint64_t bo = 0; for (auto* x : b->getBlockOfProofEndorsement()) bo += mixh(19, x->endorsedHash[0]); h = mixh(h, bo); }
    if (what == 5) { ArithUint256 cw = b->chainWork; h = mixh(h, cw.getLow64()); }
    sum += h;
  }
  if (what == 4) { sum = mixh(sum, t.vbk().getBestChain().tip()->getHash().data()[23]); uint64_t tips = 0; for (auto* x : t.vbk().getTips()) tips += mixh(17, x->getHash().data()[23]); sum = mixh(sum, tips); sum = mixh(sum, t.vbk().getBlocks().size()); }
  return sum;
}
static uint64_t digestBtc(AltBlockTree& t, int what) {
  uint64_t sum = 0;
  for (auto* b : t.btc().getBlocks()) {
    uint64_t h = mixh(7, b->getHash().data()[31] + 256 * b->getHash().data()[30]);
    if (what == 0) h = mixh(h, b->getStatus());
    if (what == 1) { uint64_t r = 0; for (auto x : b->getRefs()) r += mixh(23, (uint64_t)x); h = mixh(h, r); h = mixh(h, (uint64_t)b->getHeight()); }
    if (what == 3) { uint64_t bo = 0; for (auto* x : b->getBlockOfProofEndorsement()) bo += mixh(19, x->endorsedHash.data()[23]); h = mixh(h, bo); }
    sum += h;
  }
  if (what == 4) { sum = mixh(sum, t.btc().getBestChain().tip()->getHash().data()[31]); sum = mixh(sum, t.btc().getBlocks().size()); }
  return sum;
}
static void compareTrees(AltBlockTree& a, AltBlockTree& b, int base) {
  for (int w = 0; w <= 4; w++) verif_check(digestAlt(a, w) == digestAlt(b, w), base + w);          // status / shape / payload ids / endorsements / tips+best chain
  for (int w = 0; w <= 5; w++) verif_check(digestVbk(a, w) == digestVbk(b, w), base + 10 + w);
  for (int w = 0; w <= 4; w++) if (w != 2) verif_check(digestBtc(a, w) == digestBtc(b, w), base + 20 + w);
  verif_check(a.appliedBlockCount == b.appliedBlockCount, base + 30);
}
extern "C" __attribute__((noinline)) void h_reload() {
  RealWorld& w = newRealWorld();
  AltBlockTree& t = *w.alt;
  for (int v = 1; v <= 3; v++) mineVbk(w, (uint8_t)v);            // VBK 2..4
  mineBtc(w, 1, uint256(), true); mineBtc(w, 2, uint256(), true);  // BTC 2..3, really mined: their hashes are recomputed on load
  addAltHeader(w, 2, 1); addAltHeader(w, 3, 2); addAltHeader(w, 4, 2); addAltHeader(w, 5, 1);
  bool withVtb = verif_cbool(), withAtv = verif_cbool(), badBlock = verif_cbool();
  { PopData pd; pd.context = {w.vbkById[2], w.vbkById[3]};
    if (withVtb) pd.vtbs.push_back(makeVTB(w, 2, 3, 2, 2, 1));
    t.acceptBlock(altHash(2), pd); }
  { PopData pd; pd.context = {w.vbkById[4]};
    if (withAtv) pd.atvs.push_back(makeATV(w, 2, 2, 4, 1));
    t.acceptBlock(altHash(3), pd); }
  { PopData pd; if (withAtv) pd.atvs.push_back(makeATV(w, 1, 1, 3, 2)); t.acceptBlock(altHash(4), pd); }
  { PopData pd; if (badBlock) pd.atvs.push_back(makeATV(w, 3, 3, 2, 3));   // endorses a block of another fork, carried by an unknown VBK block there: contextually invalid
    t.acceptBlock(altHash(5), pd); }
  addAltHeader(w, 7, 3); addAltHeader(w, 8, 7);                    // 7: header only, its body arrives after the first save (continuation 4); 8: body before its parent's
  { PopData pd; t.acceptBlock(altHash(8), pd); }
  uint8_t T0 = (uint8_t)verif_choice(2, 5);
  { ValidationState s; bool ok = t.setState(altHash(T0), s); if (!ok) verif_cover(3); }
  // ---- first save
  auto& storage = *new adaptors::InmemStorageImpl();
  { auto wb = storage.generateWriteBatch(); adaptors::BlockBatchImpl batch(*wb); saveTrees(t, batch); wb->writeBatch(); }
  // ---- optional continuation and an incremental second save
  uint32_t cont = verif_choice(0, 5);
  if (cont == 1) { ValidationState s; t.setState(altHash((uint8_t)verif_choice(2, 5)), s); }
  if (cont == 2) {   // a new block whose ATV endorses the bootstrap block exactly `settlement interval` (3) blocks below it: the last timely position
    addAltHeader(w, 6, 3); PopData pd; pd.atvs.push_back(makeATV(w, 1, 1, 2, 5)); t.acceptBlock(altHash(6), pd); ValidationState s; bool ok6 = t.setState(altHash(6), s);
    if (T0 == 2 || T0 == 3) { verif_check(ok6, 6); verif_cover(4); }
  }
  if (cont == 3) { auto* x = t.getBlockIndex(altHash(3)); t.invalidateSubtree(*x, BLOCK_FAILED_BLOCK); if (verif_cbool()) t.revalidateSubtree(*x, BLOCK_FAILED_BLOCK); }
  if (cont == 4) { PopData pd; t.acceptBlock(altHash(7), pd); if (verif_cbool()) { ValidationState s; t.setState(altHash(8), s); } }   // the body of an already saved header arrives and connects it and its waiting child
  if (cont == 5) {   // an already saved subtree is removed: its deleted records must reach the storage with the next incremental save
    uint8_t r = (uint8_t)verif_choice(4, 5); auto* ri = t.getBlockIndex(altHash(r)); if (ri && !t.getBestChain().contains(ri)) { t.removeSubtree(*ri); verif_cover(5); } }
  if (cont) { auto wb = storage.generateWriteBatch(); adaptors::BlockBatchImpl batch(*wb); saveTrees(t, batch); wb->writeBatch(); verif_cover(2); }
  // every index is clean after a save
  for (auto* b : t.getBlocks()) verif_check(!b->isDirty(), 1);
  for (auto* b : t.vbk().getBlocks()) verif_check(!b->isDirty(), 2);
  for (auto* b : t.btc().getBlocks()) verif_check(!b->isDirty(), 3);
  // ---- load into a fresh instance
  auto& reader = *new adaptors::BlockReaderImpl(storage, w.ap);
  auto& t2 = *new AltBlockTree(w.ap, w.vp, w.bp, w.store, reader);
  t2.btc().bootstrapWithGenesis(GetRegTestBtcBlock());
  t2.vbk().bootstrapWithGenesis(regtestVbkGenesis());
  t2.bootstrap();
  ValidationState ls;
  bool fast = verif_cbool();
  bool loaded = loadTrees(t2, fast, ls);
#ifdef DBG
  fprintf(stderr, "load: %d %s\n", (int)loaded, ls.toString().c_str());
#endif
  verif_check(loaded, 4);                                          // whatever was saved loads
  if (!loaded) return;
  compareTrees(t, t2, 100);
  verif_cover(1);
  // ---- both instances behave the same afterwards
  uint8_t X = (uint8_t)verif_choice(2, 5);
  ValidationState sa, sb;
  bool ra = t.setState(altHash(X), sa), rb = t2.setState(altHash(X), sb);
  verif_check(ra == rb, 5);
  compareTrees(t, t2, 200);
  verif_observe(t.getBestChain().tip()->getHash()[0]);
}
