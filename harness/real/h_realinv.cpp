// F-REAL / structure harness (C07, C08): the REAL AltBlockTree under histories that mix setState, invalidateSubtree,
// revalidateSubtree, removeSubtree and the re-announcement of removed blocks.  ALT tree 1-2-{3,4}, 5 on 1 with VBK context in blocks 2 and 3 and an optional ATV in 4.
// After every call: links / heights / failed-propagation / tip set, best chain only through valid blocks, exactly root..tip
// ACTIVE and applied, the payload index describes exactly the payloads of the existing blocks, the VBK tree holds exactly the
// context of the active chain, removed blocks are gone from every view.
#include "common/real_env.hpp"
using namespace vr;
#ifdef DBG
#include <cstdio>
#endif
#ifndef NOPS
#define NOPS 2
#endif
static RealWorld* W;
static bool removed[8];
static bool isDesc(int a, int x) { return isAltAncestorOrSelf(*W, a, x); }
static void checkAll(int base) {
  AltBlockTree& t = *W->alt;
  typedef BlockIndex<AltBlock> I;
  for (I* b : t.getBlocks()) {
    int id = b->getHash()[0];
    verif_check(id >= 1 && id <= 5 && !removed[id], base);                                    // a removed block is in no view
    if (b->pprev) {
      verif_check(b->getHeight() == b->pprev->getHeight() + 1, base + 1);
      verif_check(b->pprev->pnext.count(b) == 1, base + 2);
      if (b->pprev->isFailed()) verif_check(b->isFailed(), base + 3);
      if (b->isValid()) verif_check(b->pprev->isValid(), base + 4);
    }
    verif_check((t.getTips().count(b) > 0) == b->isValidTip(), base + 5);
    // payload index: every payload id of the block maps to the block
    for (auto& pid : b->getPayloadIds<VbkBlock>()) { auto& s = t.getPayloadsIndex().find(pid.asVector()); verif_check(s.count(b->getHash()) == 1, base + 12); }
    for (auto& pid : b->getPayloadIds<ATV>()) { auto& s = t.getPayloadsIndex().find(pid.asVector()); verif_check(s.count(b->getHash()) == 1, base + 12); }
  }
  for (int id = 1; id <= 5; id++) verif_check((t.getBlockIndex(altHash((uint8_t)id)) != nullptr) == !removed[id], base + 13);
  // nothing in the payload index points to a block that does not exist
  for (auto& kv : t.getPayloadsIndex().getAll()) for (auto& h : kv.second) verif_check(t.getBlockIndex(h) != nullptr, base + 14);
  auto& chain = t.getBestChain();
  I* tip = chain.tip();
  verif_check(tip != nullptr && tip->isValid() && !tip->isDeleted(), base + 7);
  size_t active = 0;
  for (I* b : t.getBlocks()) { bool on = chain.contains(b); verif_check(b->hasFlags(BLOCK_ACTIVE) == on, base + 8); if (on) { verif_check(b->isValid(), base + 9); active++; } }
  verif_check(t.appliedBlockCount == active, base + 10);
  // VBK tree == bootstrap + the context carried by the active chain (blocks 2,3 in ALT 2; block 4 in ALT 3 and in ALT 4)
  int tipId = tip->getHash()[0];
  bool has2 = isDesc(2, tipId), has3 = isDesc(3, tipId) || isDesc(4, tipId);
  size_t expectVbk = 1 + (has2 ? 2 : 0) + (has3 ? 1 : 0);
  verif_check(t.vbk().getBlocks().size() == expectVbk, base + 11);
}
extern "C" __attribute__((noinline)) void h_realinv() {
  RealWorld& w = newRealWorld();
  W = &w;
  AltBlockTree& t = *w.alt;
  for (int v = 1; v <= 3; v++) mineVbk(w, (uint8_t)v);            // VBK 2..4
  addAltHeader(w, 2, 1); addAltHeader(w, 3, 2); addAltHeader(w, 4, 2); addAltHeader(w, 5, 1);
  bool withAtv = verif_cbool();
  { PopData pd; pd.context = {w.vbkById[2], w.vbkById[3]}; t.acceptBlock(altHash(2), pd); }
  { PopData pd; pd.context = {w.vbkById[4]}; t.acceptBlock(altHash(3), pd); }
  { PopData pd; pd.context = {w.vbkById[4]}; if (withAtv) pd.atvs.push_back(makeATV(w, 2, 2, 3, 1)); t.acceptBlock(altHash(4), pd); }   // the sibling fork block carries the SAME VBK block: one payload id, two containing blocks
  { PopData pd; t.acceptBlock(altHash(5), pd); }
  { ValidationState s; verif_check(t.setState(altHash((uint8_t)verif_choice(2, 5)), s), 1); }
  checkAll(100);
  for (int k = 0; k < NOPS; k++) {
    uint32_t op = verif_choice(0, 4);
    uint8_t x = (uint8_t)verif_choice(2, 5);
    auto* xi = t.getBlockIndex(altHash(x));
    if (op == 4) {                                                          // the header (and body) of a removed block is announced again
      if (xi || removed[w.parent[x]]) continue;
      AltBlock hb = mkAlt(x, w.parent[x], w.height[x]);
      ValidationState hs;
      bool acc = t.acceptBlockHeader(hb, hs);
      auto* ni = t.getBlockIndex(altHash(x));
#ifdef DBG
      fprintf(stderr, "reannounce x=%d acc=%d ni=%p state=%s deleted=%d status=%x\n", x, (int)acc, (void*)ni, hs.toString().c_str(), ni ? (int)ni->isDeleted() : -1, ni ? ni->getStatus() : 0);
#endif
      verif_check(acc ? (ni != nullptr && ni->isValid()) : (ni == nullptr || !ni->isValid()), 8);   // refused headers are either unknown or known-invalid (a removed block remembers its FAILED marks)
      if (ni) { removed[x] = false; PopData pd; if (x == 2) pd.context = {w.vbkById[2], w.vbkById[3]}; if (x == 3 || x == 4) pd.context = {w.vbkById[4]}; t.acceptBlock(altHash(x), pd); verif_cover(4); }
      checkAll(200 + 100 * k);
      continue;
    }
    if (!xi) { verif_check(removed[x], 2); continue; }
    if (op == 0) {
      bool wasFailed = xi->isFailed();
      ValidationState s; bool ok = t.setState(*xi, s);
      verif_check(ok == !wasFailed, 3);                                   // every payload here is contextually valid: only failed blocks are refused
      if (ok) verif_check(t.getBestChain().tip() == xi, 4);
    } else if (op == 1) {
      t.invalidateSubtree(*xi, BLOCK_FAILED_BLOCK);
      for (int d = 2; d <= 5; d++) { auto* di = t.getBlockIndex(altHash((uint8_t)d)); if (di && isDesc(x, d)) verif_check(di->isFailed(), 5); }
      verif_check(!isDesc(x, t.getBestChain().tip()->getHash()[0]), 6);  // the tip left the invalidated subtree
      verif_cover(1);
    } else if (op == 2) {
      bool had = xi->hasFlags(BLOCK_FAILED_BLOCK);
      t.revalidateSubtree(*xi, BLOCK_FAILED_BLOCK);
      if (had && !(xi->pprev && xi->pprev->isFailed())) { verif_check(!xi->isFailed(), 7); verif_cover(2); }
    } else {
      t.removeSubtree(*xi);
      for (int d = 2; d <= 5; d++) if (isDesc(x, d)) removed[d] = true;
      verif_cover(3);
    }
    checkAll(200 + 100 * k);
  }
  verif_observe(t.getBestChain().tip()->getHash()[0]);
}
