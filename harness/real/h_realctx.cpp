// F-REAL / contextual rules that need taller chains or fork removal (C04):
//  scenario 0: an ATV endorsing ALT block 6 (height 5: both previous keystones exist) carried by block 7 with context info that is
//              honest, or differs from the endorsed block's in exactly one component (height, first previous keystone, second previous
//              keystone, state root is not part of the rule): the chain activates iff the context info is the endorsed block's own.
//  scenario 1: the same VBK block is carried by two sibling fork blocks (legitimate); one fork is removed; a descendant of the other
//              fork repeats the payload: it is still a duplicate (the payload index must not forget the surviving containing block).
#include "common/real_env.hpp"
#include <veriblock/pop/entities/context_info_container.hpp>
using namespace vr;
extern "C" __attribute__((noinline)) void h_realctx() {
  RealWorld& w = newRealWorld();
  AltBlockTree& t = *w.alt;
  mineVbk(w, 1); mineVbk(w, 2);                                      // VBK 2, 3
  if (verif_cbool()) {
    for (uint8_t a = 2; a <= 7; a++) addAltHeader(w, a, (uint8_t)(a - 1));
    w.ap.mEndorsementSettlementInterval = 4;
    uint32_t tamper = verif_choice(0, 3);
    ATV atv = makeATV(w, 6, 6, 2, 1);
    AuthenticatedContextInfoContainer c;
    { ReadStream rs(atv.transaction.publicationData.contextInfo); ValidationState ds; verif_check(DeserializeFromVbkEncoding(rs, c, ds), 1); }
    verif_check(!c.ctx.keystones.firstPreviousKeystone.empty() && !c.ctx.keystones.secondPreviousKeystone.empty(), 2);   // both keystones exist at this height
    if (tamper == 1) c.ctx.height += 1;
    if (tamper == 2) c.ctx.keystones.firstPreviousKeystone[0] ^= 0x40;
    if (tamper == 3) c.ctx.keystones.secondPreviousKeystone[0] ^= 0x40;
    { WriteStream ws; c.toVbkEncoding(ws); atv.transaction.publicationData.contextInfo = ws.data(); }
    for (uint8_t a = 2; a <= 6; a++) { PopData none; t.acceptBlock(altHash(a), none); }
    PopData pd; pd.context = {w.vbkById[2]}; pd.atvs = {atv};
    t.acceptBlock(altHash(7), pd);
    ValidationState st;
    bool ok = t.setState(altHash(7), st);
    verif_check(ok == (tamper == 0), 3);                             // endorsed-block context info must match in every component
    if (!ok) verif_check(t.getBlockIndex(altHash(7))->hasFlags(BLOCK_FAILED_POP), 4);
    verif_cover(1 + (int)tamper);
  } else {
    addAltHeader(w, 2, 1); addAltHeader(w, 3, 2); addAltHeader(w, 4, 2); addAltHeader(w, 5, 3); addAltHeader(w, 6, 4);
    PopData none, shared; shared.context = {w.vbkById[2]};
    t.acceptBlock(altHash(2), none); t.acceptBlock(altHash(3), shared); t.acceptBlock(altHash(4), shared);
    uint8_t gone = (uint8_t)verif_choice(3, 4), kept = (uint8_t)(7 - gone), child = (uint8_t)(kept + 2);
    { ValidationState s; verif_check(t.setState(altHash(kept), s), 5); }
    uint32_t how = verif_choice(0, 1);
    if (how == 0) t.removeSubtree(altHash(gone)); else t.removePayloads(altHash(gone));
    // the surviving fork's child repeats the payload
    t.acceptBlock(altHash(child), shared);
    auto* ci = t.getBlockIndex(altHash(child));
    verif_check(ci->hasFlags(BLOCK_FAILED_POP) && !ci->isValid(), 6);       // still a duplicate of its parent's payload
    ValidationState s2;
    verif_check(!t.setState(altHash(child), s2), 7);
    verif_check(t.getBestChain().tip()->getHash()[0] == kept, 8);
    verif_cover(5 + (int)how);
  }
}
