// F-REAL / payouts harness (C14): the REAL DefaultPopRewardsCalculator::getPopPayout on the real three-tree system.
// ALT chain 1..6, payout delay 3: the tip (height 5) pays the block E at height 3 (ALT 4).  E is endorsed by two ATVs with symbolic
// containing ALT block, symbolic VBK block of proof (three heights on the VBK best chain or a block of a LOSING VBK fork) and
// symbolic miner; the two blocks before E feed the difficulty average: ALT 3 is endorsed once or not at all, ALT 2 three times or not
// at all (an un-endorsed block may sit between E and a heavily endorsed one).  The payout map must equal an
// independent specification of WHO is paid for WHAT: only endorsements whose block of proof is on the VBK best chain count, the
// best publication is the lowest such height, weights come from the relative-height table, the difficulty is the averaged score
// of the preceding blocks (minimum 1), amounts of the same miner accumulate.  The arithmetic kernels (calculateBlockReward /
// calculateMinerReward) are decided on their own by h_reward and are used as given here.
#include "common/real_env.hpp"
#include <veriblock/pop/rewards/default_poprewards_calculator.hpp>
using namespace vr;
extern "C" __attribute__((noinline)) void h_payout() {
  RealWorld& w = newRealWorld();
  AltBlockTree& t = *w.alt;
  auto& pp = *w.ap.mPopPayoutsParams;
  pp.mPopPayoutDelay = 3; pp.mDifficultyAveragingInterval = 2; pp.mLookupTable = {1.0, 1.0, 0.5, 0.25, 0.1};
  // VBK: best chain 1-2-3-4-5-6 (heights 0..5), losing fork 7-8 on block 3 (heights 3, 4)
  for (int v = 1; v <= 5; v++) mineVbk(w, (uint8_t)v);
  mineVbk(w, 3); mineVbk(w, 7);
  const int NB = 4; const uint8_t bopId[NB] = {2, 4, 6, 7}; const int bopH[NB] = {1, 3, 5, 3}; const bool bopBest[NB] = {true, true, true, false};
  for (uint8_t a = 2; a <= 6; a++) addAltHeader(w, a, (uint8_t)(a - 1));
  struct E { int containing, bop, miner; } e[2];
  PopData pd[7];
  for (int v = 2; v <= 8; v++) pd[2].context.push_back(w.vbkById[v]);          // all VBK blocks arrive with ALT 2
  bool end3 = verif_cbool(), end2 = verif_cbool();                               // ALT 3 endorsed once (score 1) / ALT 2 endorsed three times at the same VBK height (score 3)
  if (end3) pd[4].atvs.push_back(makeATV(w, 3, 3, 6, 9));
  if (end2) for (uint8_t k = 0; k < 3; k++) pd[3].atvs.push_back(makeATV(w, 2, 2, 2, (uint8_t)(20 + k)));
  for (int k = 0; k < 2; k++) {
    e[k].containing = 5 + k; e[k].bop = (int)verif_choice(0, NB - 1); e[k].miner = (int)verif_choice(0, 1);
    ATV a = makeATV(w, 4, 4, bopId[e[k].bop], (uint8_t)(k + 1));
    a.transaction.publicationData.payoutInfo = std::vector<uint8_t>{(uint8_t)(0xA0 + e[k].miner)};
    pd[e[k].containing].atvs.push_back(a);
  }
  for (uint8_t a = 6; a >= 2; a--) t.acceptBlock(altHash(a), pd[a]);
  ValidationState st;
  verif_check(t.setState(altHash(6), st), 1);                                    // every endorsement follows the rules
  verif_check(t.vbk().getBestChain().tip()->getHash() == w.vbkById[6].getHash(), 2);
  auto& calc = *new DefaultPopRewardsCalculator(t);
  PopPayouts got;
  ValidationState ps;
  verif_check(calc.getPopPayout(altHash(6), got, ps), 3);
  // ---- specification
  int best = -1;
  for (int k = 0; k < 2; k++) if (bopBest[e[k].bop] && (best < 0 || bopH[e[k].bop] < best)) best = bopH[e[k].bop];
  PopRewardsBigDecimal score = 0.0;
  for (int k = 0; k < 2; k++) if (bopBest[e[k].bop]) score += PopRewardsBigDecimal(pp.mLookupTable[bopH[e[k].bop] - best]);
  // difficulty: average of the scores of the two blocks before E (ALT 3: 0 or 1, ALT 2: 0 or 3 - three endorsements at the same VBK height weigh 1 each), at least 1
  PopRewardsBigDecimal diff = 0.0;
  if (end3) diff += PopRewardsBigDecimal(1.0);
  if (end2) { diff += PopRewardsBigDecimal(1.0); diff += PopRewardsBigDecimal(1.0); diff += PopRewardsBigDecimal(1.0); }
  diff /= (uint64_t)2;
  if (diff < 1.0) diff = 1.0;
  uint64_t want[2] = {0, 0};
  if (best >= 0) {
    PopRewardsBigDecimal blockReward = calc.calculateBlockReward(3, score, diff);
    for (int k = 0; k < 2; k++) if (bopBest[e[k].bop]) want[e[k].miner] += calc.calculateMinerReward((uint32_t)(bopH[e[k].bop] - best), score, blockReward).value.getLow64();
  }
  size_t paid = 0;
  for (int m = 0; m < 2; m++) {
    auto it = got.payouts.find(std::vector<uint8_t>{(uint8_t)(0xA0 + m)});
    bool expectEntry = false; for (int k = 0; k < 2; k++) expectEntry = expectEntry || (bopBest[e[k].bop] && e[k].miner == m);
    verif_check((it != got.payouts.end()) == expectEntry, 4);                    // exactly the miners with a counted endorsement are paid
    if (it != got.payouts.end()) { verif_check(it->second == want[m], 5); paid++; }
  }
  verif_check(got.payouts.size() == paid, 6);                                    // nobody else
  if (best < 0) verif_cover(1);
  if (best >= 0 && (!bopBest[e[0].bop] || !bopBest[e[1].bop])) verif_cover(2);   // one endorsement sits on the losing VBK fork
  if (bopBest[e[0].bop] && bopBest[e[1].bop] && bopH[e[0].bop] != bopH[e[1].bop] && e[0].miner == e[1].miner) verif_cover(3);
  if (end2 && !end3) verif_cover(4);                                             // an un-endorsed block between E and the heavily endorsed one, average above 1
  verif_observe(want[0]); verif_observe(want[1]);
}
