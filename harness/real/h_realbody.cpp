// F-REAL / body arrival + payload removal (C07, C04): ALT chain 1-2-3-4; the bodies of 2 and 3 arrive in either order (so a body can
// arrive before its parent's: the block stays unconnected), optionally removePayloads() is called on a block whose documented
// preconditions hold (has a body, not applied, no connected descendant) and its body is delivered again without payloads; block 4
// then carries the removed payloads.  After every call the ALT payload index is EXACTLY the set {(payload id, block)} of the existing
// blocks (both directions), tips = usable blocks without usable child, connected blocks have connected ancestors; at the end the
// chain activates: a payload removed from a block is not a duplicate any more.
#include "common/real_env.hpp"
using namespace vr;
static RealWorld* W;
static void checkIdx(int base) {
  AltBlockTree& t = *W->alt;
  size_t pairs = 0;
  for (auto* b : t.getBlocks()) {
    for (auto& id : b->getPayloadIds<VbkBlock>()) { verif_check(t.getPayloadsIndex().find(id.asVector()).count(b->getHash()) == 1, base); pairs++; }
    for (auto& id : b->getPayloadIds<ATV>()) { verif_check(t.getPayloadsIndex().find(id.asVector()).count(b->getHash()) == 1, base); pairs++; }
    if (b->pprev && b->isConnected()) verif_check(b->pprev->isConnected(), base + 2);
    verif_check((t.getTips().count(b) > 0) == b->isValidTip(), base + 3);
    // usable leaf <=> no usable child
    if (b->isValidTip()) for (auto* c : b->pnext) verif_check(!c->isValidTip(), base + 4);
  }
  size_t inIndex = 0;
  for (auto& kv : t.getPayloadsIndex().getAll()) { verif_check(!kv.second.empty(), base + 5); for (auto& h : kv.second) { verif_check(t.getBlockIndex(h) != nullptr, base + 6); inIndex++; } }
  verif_check(inIndex == pairs, base + 1);                           // nothing in the index that no block carries
}
extern "C" __attribute__((noinline)) void h_realbody() {
  RealWorld& w = newRealWorld();
  W = &w;
  AltBlockTree& t = *w.alt;
  mineVbk(w, 1); mineVbk(w, 1);                                      // VBK 2 and VBK 3, both on the bootstrap block: the two contexts do not depend on each other
  addAltHeader(w, 2, 1); addAltHeader(w, 3, 2); addAltHeader(w, 4, 3);
  PopData p2, p3; p2.context = {w.vbkById[2]}; p3.context = {w.vbkById[3]};
  bool withAtv = verif_cbool();
  if (withAtv) p3.atvs.push_back(makeATV(w, 2, 2, 3, 1));
  bool childFirst = verif_cbool();
  int removedFrom = 0;
  uint32_t rmAfter = verif_choice(0, 2);                             // 0: never; 1: after the first body; 2: after both bodies
  auto tryRemove = [&]() {
    uint8_t x = (uint8_t)verif_choice(2, 3);
    auto* xi = t.getBlockIndex(altHash(x));
    if (!(xi->hasFlags(BLOCK_HAS_PAYLOADS) && !xi->hasFlags(BLOCK_ACTIVE) && xi->allDescendantsUnconnected())) return;   // documented preconditions
    bool connectedBefore = xi->isConnected();
    t.removePayloads(altHash(x));
    removedFrom = x;
    verif_check(xi->getPayloadIds<VbkBlock>().empty() && xi->getPayloadIds<ATV>().empty(), 1);
    checkIdx(200);
    PopData none; t.acceptBlock(altHash(x), none);                   // the body arrives again, this time without POP data
    checkIdx(300);
    if (!connectedBefore) verif_cover(1);                            // payloads removed from a block that was not connected yet
  };
  if (childFirst) { t.acceptBlock(altHash(3), p3); verif_check(!t.getBlockIndex(altHash(3))->isConnected(), 2); } else t.acceptBlock(altHash(2), p2);
  checkIdx(100);
  if (rmAfter == 1) tryRemove();
  if (childFirst) { if (removedFrom != 2) t.acceptBlock(altHash(2), p2); } else { if (removedFrom != 3) t.acceptBlock(altHash(3), p3); }
  // a block whose body was removed and re-delivered empty may already have its (only) body: acceptBlock is not repeated for it
  checkIdx(400);
  if (rmAfter == 2) tryRemove();
  // block 4 carries whatever was removed (it is no duplicate any more), or nothing
  PopData p4;
  if (removedFrom == 2) p4 = p2;
  if (removedFrom == 3) { p4.context = p3.context; if (withAtv) p4.atvs.push_back(makeATV(w, 2, 2, 3, 1)); }
  for (int b = 2; b <= 3; b++) if (!t.getBlockIndex(altHash((uint8_t)b))->hasFlags(BLOCK_HAS_PAYLOADS)) { PopData none; t.acceptBlock(altHash((uint8_t)b), none); }
  t.acceptBlock(altHash(4), p4);
  checkIdx(500);
  for (int b = 2; b <= 4; b++) verif_check(t.getBlockIndex(altHash((uint8_t)b))->isConnected(), 3);
  ValidationState st;
  verif_check(t.setState(altHash(4), st), 4);                       // every payload is on the chain exactly once: the chain activates
  checkIdx(600);
  if (removedFrom) verif_cover(2); else verif_cover(3);
}
