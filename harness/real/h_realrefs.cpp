// F-REAL / BTC reference heights (C01, C04): one BTC block (2) is referenced by two applied VTBs contained at symbolic VBK heights (in
// either order of heights; the second one also brings BTC block 3); a third VTB, contained at a symbolic height, has the already known
// BTC block 3 as its block of proof and no context, so the rule looks at the parent BTC 2.  The BTC
// context rule ("the block the context connects to must already be referenced at or below the containing height") must be decided
// from the SET of reference heights, not from the order in which they were recorded: valid iff min(hA, hB) <= hC - also after the
// chain was left and re-activated (references rebuilt in another order).
#include "common/real_env.hpp"
using namespace vr;
extern "C" __attribute__((noinline)) void h_realrefs() {
  RealWorld& w = newRealWorld();
  AltBlockTree& t = *w.alt;
  for (int v = 1; v <= 4; v++) mineVbk(w, (uint8_t)v);              // VBK 2..5 (heights 1..4)
  mineBtc(w, 1); mineBtc(w, 2);                                      // BTC 2, 3
  for (uint8_t a = 2; a <= 5; a++) addAltHeader(w, a, (uint8_t)(a - 1));
  addAltHeader(w, 6, 2);                                             // a plain fork block to leave the chain and come back
  uint32_t cA = verif_choice(3, 5), cB = verif_choice(3, 5), cC = verif_choice(3, 5);
  PopData p2, p3, p4, p5, none;
  for (int v = 2; v <= 5; v++) p2.context.push_back(w.vbkById[v]);
  p3.vtbs.push_back(makeVTB(w, 2, (uint8_t)cA, 2, 2, 1));
  p4.vtbs.push_back(makeVTB(w, 2, (uint8_t)cB, 3, 2, 2));            // block of proof BTC 3 with context BTC 2: BTC 3 is ALREADY KNOWN when the third VTB arrives
  p5.vtbs.push_back(makeVTB(w, 2, (uint8_t)cC, 3, 3, 3));            // block of proof BTC 3 (known), no context: the rule looks at its parent BTC 2
  t.acceptBlock(altHash(2), p2); t.acceptBlock(altHash(3), p3); t.acceptBlock(altHash(4), p4); t.acceptBlock(altHash(5), p5); t.acceptBlock(altHash(6), none);
  bool expect = (cA <= cC) || (cB <= cC);
  bool detour = verif_cbool();
  if (detour) {                                                      // first activate 4, leave to the fork block, come back: the references of BTC 2 are rebuilt
    ValidationState s; verif_check(t.setState(altHash(4), s), 1);
    auto* b2 = t.btc().getBlockIndex(w.btcById[2].getHash());
    verif_check(b2 != nullptr && b2->getRefs().size() == 2, 2);
    ValidationState s6; verif_check(t.setState(altHash(6), s6), 3);
    verif_check(t.btc().getBlockIndex(w.btcById[2].getHash()) == nullptr, 4);   // unreferenced SP blocks are gone
  }
  ValidationState st;
  bool ok = t.setState(altHash(5), st);
  verif_check(ok == expect, 5);                                      // decided from the set of reference heights
  if (ok) { auto* b3 = t.btc().getBlockIndex(w.btcById[3].getHash()); verif_check(b3 != nullptr && b3->getRefs().size() == 2, 6);
            int nB = 0, nC = 0; for (auto r : b3->getRefs()) { nB += r == (int)cB - 1; nC += r == (int)cC - 1; } verif_check(cB == cC ? nB == 2 : (nB == 1 && nC == 1), 9); verif_cover(1); }
  else { verif_check(t.getBlockIndex(altHash(5))->hasFlags(BLOCK_FAILED_POP), 7); verif_cover(2); }
  verif_check(vbkIndexExact(t), 8);
  if (cA > cC && cB <= cC) verif_cover(3);                           // the FIRST recorded reference is too high, the second one is not
  if (detour) verif_cover(4);
}
