// F-REAL / VBK-level fork resolution verdict (C03): two equal-length VBK forks X (3-5-7) and Y (4-6-8) on block 2, keystone interval 2
// (keystones at heights 2 and 4).  VTBs endorse the keystones of either fork and are published in BTC blocks of symbolic height.  Once
// an ALT block carrying all of it is activated, the VBK best chain must be the one the protocol scoring prefers (publication of keystone
// K = earliest BTC block of proof among the endorsements of the blocks K..K+interval+1 of that fork; lateness weighted by the VBK table;
// finality delay; missing publications).  Without any VTB the first-seen fork stays; on an exact work-and-score tie either leaf is accepted.
#include "common/real_env.hpp"
using namespace vr;
static int64_t tbl(const std::vector<uint32_t>& t, int64_t rel) { return (rel < 0 || rel >= (int64_t)t.size()) ? 0 : (int64_t)t[(size_t)rel]; }
static const int64_t NONE = 0x7fffffff;
static int64_t refScore2(const std::vector<uint32_t>& table, int64_t fd, const int64_t* A, const int64_t* B) {
  bool outA = false, outB = false; int64_t sA = 0, sB = 0, prevA = NONE, prevB = NONE;
  for (int k = 0; k < 2; k++) {
    bool hasA = !outA, hasB = !outB;
    int64_t pA = hasA ? A[k] : NONE, pB = hasB ? B[k] : NONE;
    if (hasA && pA - prevA > fd) { outA = true; hasA = false; }
    prevA = pA;
    if (hasB && pB - prevB > fd) { outB = true; hasB = false; }
    prevB = pB;
    if (!hasA && !hasB) { if (outA && outB) break; continue; }
    if (!hasA) { sB += tbl(table, 0); outA = true; if (sB > sA) break; continue; }
    if (!hasB) { sA += tbl(table, 0); outB = true; if (sA > sB) break; continue; }
    int64_t e = pA < pB ? pA : pB;
    sA += tbl(table, pA - e); sB += tbl(table, pB - e);
    if (pA - pB > fd) outA = true;
    if (pB - pA > fd) outB = true;
  }
  return sA - sB;
}
extern "C" __attribute__((noinline)) void h_vbkcmp() {
  RealWorld& w = newRealWorld();
  AltBlockTree& t = *w.alt;
  mineVbk(w, 1);                                                     // VBK 2 (height 1)
  mineVbk(w, 2); mineVbk(w, 2); mineVbk(w, 3); mineVbk(w, 4); mineVbk(w, 5); mineVbk(w, 6);   // X: 3, 5, 7   Y: 4, 6, 8
  for (int b = 1; b <= 5; b++) mineBtc(w, (uint8_t)b);                // BTC 2..6 (heights 1..5)
  addAltHeader(w, 2, 1); addAltHeader(w, 3, 2);
  bool xFirst = verif_cbool();
  PopData p2;
  const uint8_t X[3] = {3, 5, 7}, Y[3] = {4, 6, 8};
  p2.context.push_back(w.vbkById[2]);
  for (int k = 0; k < 3; k++) p2.context.push_back(w.vbkById[xFirst ? X[k] : Y[k]]);
  for (int k = 0; k < 3; k++) p2.context.push_back(w.vbkById[xFirst ? Y[k] : X[k]]);
  static const int h1s[3] = {0, 2, 5}, h2s[2] = {0, 3};               // BTC publication height of the endorsement of the first / second keystone (0 = none)
  int x1 = h1s[verif_choice(0, 2)], x2 = h2s[verif_choice(0, 1)], y1 = h1s[verif_choice(0, 2)], y2 = h2s[verif_choice(0, 1)];
  PopData p3; uint8_t salt = 1;
  if (x1) p3.vtbs.push_back(makeVTB(w, 3, 5, (uint8_t)(x1 + 1), 2, salt++));   // endorses X's first keystone (block 3), contained in 5
  if (x2) p3.vtbs.push_back(makeVTB(w, 7, 7, (uint8_t)(x2 + 1), 2, salt++));   // endorses X's second keystone (block 7), contained in 7
  if (y1) p3.vtbs.push_back(makeVTB(w, 4, 6, (uint8_t)(y1 + 1), 2, salt++));
  if (y2) p3.vtbs.push_back(makeVTB(w, 8, 8, (uint8_t)(y2 + 1), 2, salt++));
  t.acceptBlock(altHash(2), p2); t.acceptBlock(altHash(3), p3);
  ValidationState s;
  verif_check(t.setState(altHash(3), s), 1);
  auto mn = [](int64_t a, int64_t b) { return a < b ? a : b; };
  int64_t a1 = x1 ? x1 : NONE, a2 = x2 ? x2 : NONE, b1 = y1 ? y1 : NONE, b2 = y2 ? y2 : NONE;
  int64_t A[2] = {mn(a1, a2), a2}, B[2] = {mn(b1, b2), b2};
  int64_t ref = refScore2(w.vp.getForkResolutionLookUpTable(), (int64_t)w.vp.getFinalityDelay(), A, B);
  uint8_t best = t.vbk().getBestChain().tip()->getHash().data()[23];
  bool anyVtb = x1 || x2 || y1 || y2;
  if (ref > 0) verif_check(best == 7, 2);                             // the VBK best chain is the one the protocol scoring prefers
  else if (ref < 0) verif_check(best == 8, 2);
  else if (!anyVtb) verif_check(best == (xFirst ? 7 : 8), 4);         // no POP information at all: equal work, the first-seen fork stays
  else verif_check(best == 7 || best == 8, 5);                        // exact tie in work AND POP score: either leaf (the tie-break depends on the order of application, which C01 excludes)
  verif_check(vbkIndexExact(t), 3);
  if (ref > 0) verif_cover(1); if (ref < 0) verif_cover(2); if (ref == 0 && (x1 || y1)) verif_cover(3);
  if (ref != 0 && ((ref > 0) != xFirst)) verif_cover(4);            // POP overrode the first-seen order
  verif_observe(best);
}
