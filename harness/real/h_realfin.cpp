// F-REAL / finalization: the REAL AltBlockTree::finalizeBlocks cascade (ALT -> VBK -> BTC) on a linear ALT chain whose early
// blocks carried VBK context, compared with a twin instance that never finalizes: the same later block (carrying a fresh or
// an already-used VBK block) must get the same verdict; payload ids of finalized/deallocated blocks still count for
// duplicate detection; the active chain keeps the final block; no freed index is touched.
#include "common/real_env.hpp"
using namespace vr;
#ifndef LCH
#define LCH 6
#endif
struct Out { bool connectedValid; bool activated; int tipId; size_t altBlocks; };
static Out runWorld(bool finalize, int ctxBlock, int ctxVbk, int reuseVbk, int maxReorg, int preserve) {
  RealWorld& w = newRealWorld();
  w.ap.mMaxReorgBlocks = maxReorg; w.ap.mPreserveBlocksBehindFinal = preserve; w.ap.mEndorsementSettlementInterval = preserve < maxReorg - 1 ? preserve : maxReorg - 1;   // parameter constraints asserted by the getters
  AltBlockTree& t = *w.alt;
  mineVbk(w, 1); mineVbk(w, 2); mineVbk(w, 3);          // VBK 2, 3, 4
  for (int h = 1; h <= LCH; h++) addAltHeader(w, (uint8_t)(1 + h), (uint8_t)h);
  for (int h = 1; h <= LCH; h++) {
    PopData pd;
    if (h == ctxBlock) pd.context.push_back(w.vbkById[ctxVbk == 3 ? 2 : 2]);
    if (h == ctxBlock && ctxVbk == 3) pd.context.push_back(w.vbkById[3]);
    t.acceptBlock(altHash((uint8_t)(1 + h)), pd);
  }
  // a side block that forks off early, is never activated and carries a payload of its own: finalization prunes it
  const uint8_t sid = (uint8_t)(3 + LCH);
  addAltHeader(w, sid, 2);
  { PopData sp; sp.context.push_back(w.vbkById[4]); t.acceptBlock(altHash(sid), sp); }
  ValidationState st;
  bool ok = t.setState(altHash((uint8_t)(1 + LCH)), st);
  verif_check(ok, 1);
  if (finalize) {
    for (auto* b : t.getBlocks()) b->unsetDirty();        // everything saved: finalization may deallocate
    for (auto* b : t.vbk().getBlocks()) b->unsetDirty();
    for (auto* b : t.btc().getBlocks()) b->unsetDirty();
    t.finalizeBlocks();
  }
  // the next block re-uses VBK block `reuseVbk` (2 or 3: possibly a duplicate of a payload in a finalized, deallocated block), or none
  uint8_t nid = (uint8_t)(2 + LCH);
  addAltHeader(w, nid, (uint8_t)(1 + LCH));
  PopData pd;
  if (reuseVbk) pd.context.push_back(w.vbkById[reuseVbk]);
  t.acceptBlock(altHash(nid), pd);
  auto* ni = t.getBlockIndex(altHash(nid));
  Out o;
  o.connectedValid = ni->isValid();
  ValidationState s2;
  o.activated = ni->isValid() ? t.setState(*ni, s2) : false;
  o.tipId = t.getBestChain().tip()->getHash()[0];
  o.altBlocks = t.getBlocks().size();
  // the payload index never names a block that no longer exists (pruned side blocks take their entries with them)
  for (auto& kv : t.getPayloadsIndex().getAll()) for (auto& h : kv.second) verif_check(t.getBlockIndex(h) != nullptr, 7);
  if (t.getBlockIndex(altHash(sid)) == nullptr) { verif_check(t.getPayloadsIndex().find(w.vbkById[4].getId().asVector()).empty(), 8); verif_cover(4); }
  // the final block is on the active chain
  for (auto* b : t.getBlocks()) if (b->finalized) verif_check(t.getBestChain().contains(b), 2);
  return o;
}
extern "C" __attribute__((noinline)) void h_realfin() {
  int ctxBlock = (int)verif_choice(1, 2), ctxVbk = (int)verif_choice(2, 3), reuse = (int)verif_choice(0, 3);
  if (reuse == 1) reuse = 0;
  int maxReorg = (int)verif_choice(1, 2), preserve = (int)verif_choice(0, 2);
  Out f = runWorld(true, ctxBlock, ctxVbk, reuse, maxReorg, preserve);
  Out n = runWorld(false, ctxBlock, ctxVbk, reuse, maxReorg, preserve);
  verif_observe(f.connectedValid); verif_observe(n.connectedValid); verif_observe(f.altBlocks); verif_observe(n.altBlocks);
  verif_check(f.connectedValid == n.connectedValid, 3);     // same validity result with and without finalization
  verif_check(f.activated == n.activated, 4);
  verif_check(f.tipId == n.tipId, 5);
  bool dup = reuse != 0 && reuse <= ctxVbk;                  // the VBK block was already delivered by block ctxBlock
  verif_check(n.connectedValid == !dup, 6);                 // specification: a repeated payload id makes the block invalid
  if (f.altBlocks < n.altBlocks) verif_cover(1);            // finalization really deallocated blocks
  if (dup) verif_cover(2); else verif_cover(3);
}
