// F-REAL main harness: the library's REAL AltBlockTree / VbkBlockTree / BTC tree, real command groups, payload index and
// payload storage.  World: ALT tree with NALT blocks (symbolic shape); a linear VBK chain 1-2-3-4 built on the miner side;
// every ALT block may carry VBK context blocks [lo..hi] and one ATV (endorsed block, context-info source, containing VBK
// block all chosen symbolically, so honest and rule-breaking payloads both occur).  Bodies arrive in a symbolic order.
// Then: setState(T0); one more operation (setState / comparePopScore); probes.  Verdicts are compared with an independent
// integer specification; atomicity / round trips with a digest of all three trees; structure + payload-index invariants.
#include "common/real_env.hpp"
using namespace vr;
#ifndef NALT
#define NALT 3
#endif
#ifndef NATV
#define NATV 1
#endif
#ifndef NVBK
#define NVBK 4
#endif
static const int NV = NVBK;  // VBK blocks 1..NV (1 = bootstrap)
struct Plan { int lo = 0, hi = 0; int atvEndorsed = 0, atvCtxOf = 0, atvVbk = 0; int atvSalt = 0; };
static Plan plan[NALT + 2];
static RealWorld* W;
static uint8_t vbkIdOf(const VbkBlock::hash_t& h) { return h.data()[23]; }

// ---- independent specification -------------------------------------------------------------------------------------
struct Sim { bool vbk[NV + 2]; };
static bool simDuplicate(int b) {   // a payload id of b already occurs in an ancestor of b
  for (int a = W->parent[b]; a; a = W->parent[a]) {
    for (int v = plan[b].lo; v && v <= plan[b].hi; v++) if (plan[a].lo && v >= plan[a].lo && v <= plan[a].hi) return true;
    if (plan[b].atvEndorsed && plan[a].atvEndorsed && plan[a].atvEndorsed == plan[b].atvEndorsed && plan[a].atvCtxOf == plan[b].atvCtxOf && plan[a].atvVbk == plan[b].atvVbk && plan[a].atvSalt == plan[b].atvSalt) return true;
  }
  return false;
}
static bool simApply(Sim& s, int b) {
  Sim saved = s;
  bool ok = true;
  for (int v = plan[b].lo; ok && v && v <= plan[b].hi; v++) { if (!s.vbk[v]) { if (!s.vbk[v - 1]) ok = false; else s.vbk[v] = true; } }
  if (ok && plan[b].atvEndorsed) {
    int c = plan[b].atvVbk, e = plan[b].atvEndorsed;
    if (!s.vbk[c]) { if (!s.vbk[c - 1]) ok = false; else s.vbk[c] = true; }                 // block of proof must connect
    if (ok && plan[b].atvCtxOf != e) ok = false;                                            // context info (height / keystones) of another block
    if (ok && !isAltAncestorOrSelf(*W, e, b)) ok = false;                                   // endorsed block not on this chain
    if (ok && W->height[b] - W->height[e] > (int)W->ap.getEndorsementSettlementInterval()) ok = false;   // expired
  }
  if (!ok) s = saved;
  return ok;
}
static int simFirstInvalid(int x) {   // 0 = chain root..x is valid
  int path[NALT + 2], n = 0;
  for (int i = x; i; i = W->parent[i]) path[n++] = i;
  Sim s; for (int i = 0; i <= NV + 1; i++) s.vbk[i] = false; s.vbk[1] = true;
  for (int k = n - 2; k >= 0; k--) { if (simDuplicate(path[k])) return path[k]; if (!simApply(s, path[k])) return path[k]; }
  return 0;
}
// ---- observable digest of the three trees --------------------------------------------------------------------------
static uint64_t mix(uint64_t h, uint64_t v) { h ^= v + 0x9e3779b97f4a7c15ull + (h << 6) + (h >> 2); return h * 0x100000001b3ull; }
static uint64_t digest(int maskBranchOf, bool maskAllFailed) {
  AltBlockTree& t = *W->alt;
  uint64_t sum = 0;
  for (auto* b : t.getBlocks()) {
    int id = b->getHash()[0];
    bool masked = maskAllFailed || (maskBranchOf && id != 1 && (isAltAncestorOrSelf(*W, id, maskBranchOf) || isAltAncestorOrSelf(*W, maskBranchOf, id)));
    uint32_t flags = b->getStatus() & (BLOCK_FAILED_MASK | BLOCK_ACTIVE | BLOCK_HAS_PAYLOADS);
    if (masked) flags &= ~(uint32_t)BLOCK_FAILED_MASK;
    uint64_t h = mix(mix(3, id), flags);
    uint64_t e1 = 0; for (auto& kv : b->getContainingEndorsements()) e1 += mix(5, kv.first.data()[0] + 256 * kv.first.data()[1]);
    uint64_t e2 = 0; for (auto* e : b->getEndorsedBy()) e2 += mix(7, e->id.data()[0] + 256 * e->id.data()[1]);
    h = mix(mix(h, e1), e2);
    h = mix(h, b->getPayloadIds<ATV>().size() * 64 + b->getPayloadIds<VbkBlock>().size());
    sum += h;
  }
  for (auto* b : t.vbk().getBlocks()) {
    uint64_t h = mix(11, vbkIdOf(b->getHash()));
    h = mix(h, b->getStatus() & (BLOCK_FAILED_MASK | BLOCK_ACTIVE));
    h = mix(h, b->refCount());
    uint64_t e = 0; for (auto* x : b->getBlockOfProofEndorsement()) e += mix(13, x->id.data()[0] + 256 * x->id.data()[1]);
    h = mix(h, e);
    sum += h;
  }
  uint64_t tips = 0; for (auto* b : t.vbk().getTips()) tips += mix(17, vbkIdOf(b->getHash()));
  sum = mix(sum, tips);
  sum = mix(sum, vbkIdOf(t.vbk().getBestChain().tip()->getHash()));
  sum = mix(sum, t.btc().getBlocks().size());
  sum = mix(sum, t.getBestChain().tip()->getHash()[0]);
  sum = mix(sum, t.appliedBlockCount);
  return sum;
}
// ---- invariants after every public call ------------------------------------------------------------------------------
static void checkInvariants(int base) {
  AltBlockTree& t = *W->alt;
  auto* tip = t.getBestChain().tip();
  size_t active = 0;
  for (auto* b : t.getBlocks()) {
    bool on = t.getBestChain().contains(b);
    verif_check(b->hasFlags(BLOCK_ACTIVE) == on, base + 1);                       // exactly root..tip are applied
    if (on) active++;
    if (b->pprev) {
      verif_check(b->getHeight() == b->pprev->getHeight() + 1, base + 2);
      if (b->pprev->isFailed()) verif_check(b->isFailed(), base + 3);            // descendants of an invalid block are failed
      if (b->isConnected()) verif_check(b->pprev->isConnected(), base + 4);       // a connected block has only connected ancestors
    }
    verif_check((t.getTips().count(b) > 0) == b->isValidTip(), base + 5);
    // payload index: every payload id of the block maps to this block
    for (auto& id : b->getPayloadIds<ATV>()) verif_check(t.getPayloadsIndex().find(id.asVector()).count(b->getHash()) == 1, base + 6);
    for (auto& id : b->getPayloadIds<VbkBlock>()) verif_check(t.getPayloadsIndex().find(id.asVector()).count(b->getHash()) == 1, base + 7);
  }
  verif_check(t.appliedBlockCount == active && active == t.getBestChain().blocksCount(), base + 8);
  verif_check(tip->isValid(BLOCK_CAN_BE_APPLIED), base + 9);
  for (auto* b : t.vbk().getBlocks()) verif_check(b->refCount() > 0 || vbkIdOf(b->getHash()) == 1, base + 10);   // an SP block exists exactly while referenced
  // the VBK tree holds exactly the blocks the specification expects for the active chain
  int path[NALT + 2], n = 0;
  for (int i = tip->getHash()[0]; i; i = W->parent[i]) path[n++] = i;
  Sim s; for (int i = 0; i <= NV + 1; i++) s.vbk[i] = false; s.vbk[1] = true;
  for (int k = n - 2; k >= 0; k--) { bool ok = simApply(s, path[k]); verif_check(ok, base + 11); }
  for (int v = 1; v <= NV; v++) verif_check((t.vbk().getBlockIndex(W->vbkById[v].getHash()) != nullptr) == s.vbk[v], base + 12);
}
static void checkInvalidMarks(int target, int base) {
  int bad = simFirstInvalid(target);
  verif_check(bad != 0, base);
  if (!bad) return;
  verif_check(W->alt->getBlockIndex(altHash((uint8_t)bad))->hasFlags(BLOCK_FAILED_POP), base + 1);
  for (int x = 2; x <= W->nalt; x++) if (x != bad && isAltAncestorOrSelf(*W, bad, x)) verif_check(W->alt->getBlockIndex(altHash((uint8_t)x))->isFailed(), base + 2);
}
extern "C" __attribute__((noinline)) void h_real() {
  RealWorld& w = newRealWorld();
  W = &w;
  AltBlockTree& t = *w.alt;
  for (int v = 1; v < NV; v++) mineVbk(w, (uint8_t)v);               // VBK blocks 2..NV on the miner side
  for (int b = 2; b <= NALT; b++) addAltHeader(w, (uint8_t)b, (uint8_t)verif_choice(1, b - 1));
  // payload plans
  int atvs = 0;
  for (int b = 2; b <= NALT; b++) {
    int hi = (int)verif_choice(0, NV);
    if (hi >= 2) { plan[b].hi = hi; plan[b].lo = (int)verif_choice(2, hi); }
    if (atvs < NATV && verif_cbool()) {
      atvs++;
      plan[b].atvEndorsed = (int)verif_choice(1, NALT);
      plan[b].atvCtxOf = verif_cbool() ? plan[b].atvEndorsed : w.parent[plan[b].atvEndorsed];   // honest, or the context info of the parent (wrong height/keystones)
      if (plan[b].atvCtxOf == 0) plan[b].atvCtxOf = plan[b].atvEndorsed;
      plan[b].atvVbk = (int)verif_choice(2, NV);
      plan[b].atvSalt = 1;
    }
  }
  // bodies in a symbolic arrival order
#ifdef BOTH_ORDERS
  bool reverse = verif_cbool();
#else
  bool reverse = true;   // bodies arrive children first: every block is connected by acceptBlock of an ancestor
#endif
  for (int k = 0; k < NALT - 1; k++) {
    int b = reverse ? NALT - k : 2 + k;
    PopData pd;
    for (int v = plan[b].lo; v && v <= plan[b].hi; v++) pd.context.push_back(w.vbkById[v]);
    if (plan[b].atvEndorsed) pd.atvs.push_back(makeATV(w, (uint8_t)plan[b].atvEndorsed, (uint8_t)plan[b].atvCtxOf, (uint8_t)plan[b].atvVbk, (uint8_t)plan[b].atvSalt));
    t.acceptBlock(altHash((uint8_t)b), pd);
    checkInvariants(100);
  }
  for (int b = 2; b <= NALT; b++) verif_check(t.getBlockIndex(altHash((uint8_t)b))->isConnected(), 1);   // all bodies delivered => all connected
  // ---- step 1
  uint8_t T0 = (uint8_t)verif_choice(2, NALT);
  auto* t0 = t.getBlockIndex(altHash(T0));
  ValidationState s1;
  bool t0WasValid = t0->isValid();
  // connect-time rule: a block repeating a payload id of an ancestor is reported invalid as soon as it is connected
  for (int b = 2; b <= NALT; b++) if (simDuplicate(b)) verif_check(t.getBlockIndex(altHash((uint8_t)b))->hasFlags(BLOCK_FAILED_POP), 19);
  uint64_t dBefore0 = digest(T0, false);
  bool ok0 = t.setState(*t0, s1);
  verif_check(ok0 == (simFirstInvalid(T0) == 0), 2);          // activated iff every payload on root..T0 is contextually valid there
  if (ok0) { verif_check(t.getBestChain().tip() == t0, 3); verif_cover(1); }
  else { verif_check(t.getBestChain().tip()->getHash()[0] == 1, 4); verif_check(digest(T0, false) == dBefore0, 5); if (t0WasValid) checkInvalidMarks(T0, 40); verif_check(!t0->isValid(), 20); verif_cover(2); }
  checkInvariants(200);
  uint64_t d0 = digest(0, true);
  auto* tip0 = t.getBestChain().tip();
  // ---- step 2
  uint8_t X = (uint8_t)verif_choice(2, NALT);
  auto* xi = t.getBlockIndex(altHash(X));
  bool doCmp = verif_cbool();
  uint64_t before = digest(X, false);
  bool xWasValid = xi->isValid();
  if (!doCmp) {
    ValidationState s2;
    bool ok = t.setState(*xi, s2);
    verif_check(ok == (simFirstInvalid(X) == 0), 6);
    if (ok) { verif_check(t.getBestChain().tip() == xi, 7); verif_cover(3); }
    else { verif_check(t.getBestChain().tip() == tip0, 8); verif_check(digest(X, false) == before, 9); if (xWasValid) checkInvalidMarks(X, 50); verif_cover(4); }
  } else {
    int r = t.comparePopScore(tip0->getHash(), altHash(X));
    if (r >= 0) { verif_check(t.getBestChain().tip() == tip0, 10); verif_check(digest(X, false) == before, 11); verif_cover(5); }
    else { verif_check(t.getBestChain().tip() == xi, 12); verif_check(simFirstInvalid(X) == 0, 13); verif_cover(6); }
    if (!xWasValid) verif_check(r > 0, 14);
  }
  checkInvariants(300);
  // ---- step 3: re-activation of anything reported fully valid; return to T0
  uint8_t Y = (uint8_t)verif_choice(2, NALT);
  auto* yi = t.getBlockIndex(altHash(Y));
  if (yi->isValid(BLOCK_CAN_BE_APPLIED) && !yi->isFailed()) {
    verif_check(simFirstInvalid(Y) == 0, 15);
    ValidationState s3;
    verif_check(t.setState(*yi, s3), 16);
    checkInvariants(400);
    verif_cover(7);
  }
  if (ok0) {
    ValidationState s4;
    bool back = t.setState(*t0, s4);
    verif_check(back, 17);
    if (back) { verif_check(digest(0, true) == d0, 18); checkInvariants(500); verif_cover(8); }
  }
  verif_observe(t.getBestChain().tip()->getHash()[0]);
  verif_observe(t.vbk().getBlocks().size());
}
