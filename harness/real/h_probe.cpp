#include "common/real_env.hpp"
using namespace vr;
extern "C" __attribute__((noinline)) void h_probe() {
  RealWorld& w = newRealWorld();
  auto& t = *w.alt;
  addAltHeader(w, 2, 1); addAltHeader(w, 3, 2);
  mineVbk(w, 1); mineVbk(w, 2); mineVbk(w, 3);     // VBK 2,3,4
  PopData empty;
  t.acceptBlock(altHash(2), empty);
  PopData pd;
  pd.context = {w.vbkById[2], w.vbkById[3]};
  pd.atvs = {makeATV(w, 2, 2, 3, 1)};
  t.acceptBlock(altHash(3), pd);
  ValidationState st;
  bool s = t.setState(altHash(3), st);
  verif_check(s, 1);
  verif_observe(t.getBestChain().tip()->getHeight());
  verif_observe(t.vbk().getBestChain().tip()->getHeight());
  verif_observe(t.getBlockIndex(altHash(2))->getEndorsedBy().size());
}
