// F-REAL / VbkBlockTree::addPayloads with SEVERAL VTBs in one call (C02: "if unsuccessful, it leaves the state unchanged"; the
// AddVTB command passes one VTB per call, so the multi-payload rollback loop is only reached through this public entry point).
// VBK chain 2-3-4 (active) and a fork block 5 on 2, all delivered by ALT block 2.  Two VTBs for the same containing block (3, 4 or the
// non-active 5) are handed over in either order: the first is valid; the second is valid, a duplicate of the first, endorses a
// block that is no ancestor of the containing block, or carries a BTC block of proof whose parent is unknown.
#include "common/real_env.hpp"
using namespace vr;
static RealWorld* W;
static uint64_t mixh(uint64_t h, uint64_t v) { h ^= v + 0x9e3779b97f4a7c15ull + (h << 6) + (h >> 2); return h * 0x100000001b3ull; }
static uint64_t spDigest() {
  AltBlockTree& t = *W->alt;
  const uint32_t M = BLOCK_FAILED_MASK | BLOCK_ACTIVE | BLOCK_DELETED;
  uint64_t sum = 0;
  for (auto* b : t.vbk().getBlocks()) {
    uint64_t h = mixh(mixh(5, b->getHash().data()[23]), b->getStatus() & M);
    h = mixh(h, b->refCount() * 4096 + b->getPayloadIds<VTB>().size() * 256 + b->getContainingEndorsements().size() * 16 + b->getEndorsedBy().size());
    sum += h;
  }
  for (auto* b : t.btc().getBlocks()) { uint64_t h = mixh(7, b->getHash().data()[31] + 256 * b->getHash().data()[30]); for (auto r : b->getRefs()) h += mixh(11, (uint64_t)r); h = mixh(h, b->getBlockOfProofEndorsement().size()); sum += h; }
  sum = mixh(sum, t.vbk().getBestChain().tip()->getHash().data()[23]);
  sum = mixh(sum, t.btc().getBestChain().tip()->getHash().data()[31]);
  sum = mixh(sum, t.vbk().getBlocks().size() * 64 + t.btc().getBlocks().size());
  sum = mixh(sum, t.vbk().appliedBlockCount);
  return sum;
}
extern "C" __attribute__((noinline)) void h_vbkadd() {
  RealWorld& w = newRealWorld();
  W = &w;
  AltBlockTree& t = *w.alt;
  mineVbk(w, 1); mineVbk(w, 2); mineVbk(w, 3); mineVbk(w, 2);      // VBK 2, 3, 4 and the fork block 5 (on 2)
  mineBtc(w, 1); mineBtc(w, 2); mineBtc(w, 3);                      // BTC 2, 3, 4
  addAltHeader(w, 2, 1);
  { PopData pd; pd.context = {w.vbkById[2], w.vbkById[3], w.vbkById[4], w.vbkById[5]}; t.acceptBlock(altHash(2), pd); ValidationState s; verif_check(t.setState(altHash(2), s), 1); }
  verif_check(t.vbk().getBestChain().tip()->getHash().data()[23] == 4, 2);
  uint8_t c = (uint8_t)verif_choice(3, 5);                          // containing block: on the active VBK chain (3, 4) or not (5)
  VTB good = makeVTB(w, 2, c, 2, 2, 1);                             // endorses VBK 2, block of proof BTC 2 (connects to the BTC bootstrap block)
  uint32_t kind = verif_choice(0, 3);
  VTB second = kind == 0 ? makeVTB(w, 2, c, 3, 3, 2)                // valid: BTC 3 connects to the BTC 2 the first one brings
             : kind == 1 ? good                                     // duplicate
             : kind == 2 ? makeVTB(w, (uint8_t)(c == 5 ? 3 : 5), c, 3, 3, 2)   // endorsed block on another VBK fork
                         : makeVTB(w, 2, c, 4, 4, 2);               // block of proof BTC 4 without its parent BTC 3
  bool goodFirst = verif_cbool();
  std::vector<VTB> both = goodFirst ? std::vector<VTB>{good, second} : std::vector<VTB>{second, good};
  // expected verdict: the valid second one needs BTC 2 first
  bool expect = (kind == 0 && goodFirst) || kind == 1;             // (a repeated VTB is accepted at this level by design: see the comment in addPayloadToAppliedBlock)
  { PopData store; store.vtbs = both; w.store.writePayloads(store); }   // precondition of the entry point: the payload bodies are in the payloads storage
  verif_check(vbkIndexExact(t), 14);
  uint64_t before = spDigest();
  ValidationState st;
  bool ok = t.vbk().addPayloads(w.vbkById[c].getHash(), both, st);
  verif_check(ok == expect, 3);
  auto* ci = t.vbk().getBlockIndex(w.vbkById[c].getHash());
  if (!ok) {
    verif_check(spDigest() == before, 4);                           // unsuccessful: the VBK and BTC views are exactly as before (every applied VTB rolled back, tip restored)
    verif_check(ci->getPayloadIds<VTB>().empty(), 5);
    verif_check(!st.IsValid(), 6);
    verif_check(vbkIndexExact(t), 11);                              // incl. the VBK payload index: nothing of the failed call is left in it
    verif_cover(1 + (int)kind);
  } else {
    if (kind == 1) verif_cover(2);
    verif_check(ci->getPayloadIds<VTB>().size() == 2, 7);
    verif_check(vbkIndexExact(t), 12);
    bool applied = t.vbk().getBestChain().contains(ci);             // the containing fork block may or may not have won POP fork resolution
    if (kind == 0) verif_check((t.btc().getBlockIndex(w.btcById[3].getHash()) != nullptr) == applied, 8);   // its BTC context exists exactly while it is applied
    // and it can be taken back payload by payload: the views return to the state before the call
    if (kind == 0) t.vbk().removePayloads(w.vbkById[c].getHash(), {second.getId(), good.getId()}); else t.vbk().removePayloads(w.vbkById[c].getHash(), {good.getId(), good.getId()});
    verif_check(spDigest() == before || c == 5, 9);                 // (on the fork block the POP-driven best chain may legitimately differ while payloads exist; after removal it is compared below)
    verif_check(ci->getPayloadIds<VTB>().empty() && t.btc().getBlocks().size() == 1, 10);
    verif_check(vbkIndexExact(t), 13);
    verif_cover(5);
  }
  if (c == 5) verif_cover(6);
}
