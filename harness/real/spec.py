import os, sys
sys.path.insert(0, os.path.join(os.path.dirname(os.path.abspath(__file__)), '..', 'common'))
import srcsets_real
REAL_OBL = ['REAL AltBlockTree/VbkBlockTree/BTC tree: setState(target) succeeds iff every payload on root..target satisfies the independent integer specification (VBK context connects, no payload id repeated in an ancestor, ATV block of proof connects, publication-data context info matches the endorsed block, endorsed block on the same chain within the settlement interval)',
            'REAL trees: failed setState / non-negative comparePopScore leave tip and the digest of all three trees unchanged except validity marks on the target branch; first invalid block FAILED_POP, descendants failed',
            'REAL trees: after every public call exactly root..tip applied, counters agree, tip fully valid, connected blocks have connected ancestors, tips == valid leaves, ALT payload index maps every payload id to its containing block, VBK blocks exist exactly while referenced and equal the set the specification predicts',
            'REAL trees: blocks reporting full validity re-activate; returning to the first target reproduces the digest recorded there']
HARNESSES = [
    {'name': 'h_real', 'src': 'real/h_real.cpp', 'entry': 'h_real', 'repo_srcs': srcsets_real.REAL, 'covers': [1, 2, 3, 4, 5, 7, 8], 'jobs': 16, 'obligations': REAL_OBL,
     'rungs': {'quick': [{'defines': ['NALT=3', 'NATV=1', 'NVBK=3'], 'bound': 'ALT tree: every shape on 3 blocks; per block VBK context range [lo..hi] within a 3-block VBK chain, at most 1 ATV (endorsed block 1..3, honest or foreign context info, containing VBK block 2..3); bodies arrive children first; setState, {setState|comparePopScore}, probes', 'timeout': 280}],
               'thorough': [{'defines': ['NALT=3', 'NATV=2', 'NVBK=4', 'BOTH_ORDERS'], 'bound': 'ALT tree 3 blocks, 2 ATVs, 4-block VBK chain, both body arrival orders', 'timeout': 4000}, {'defines': ['NALT=3', 'NATV=1', 'NVBK=4', 'BOTH_ORDERS'], 'bound': 'ALT tree 3 blocks, 1 ATV, 4-block VBK chain, both arrival orders', 'timeout': 1500}]}},
]
EXPLANATION = 'F-REAL: the real three-tree system runs in the engine with hand-made payloads (preset header hashes, real payload ids); the scenario space is explored exhaustively by solver-driven case splits and every verdict is compared with an independent integer specification.'
ASSUMPTIONS = ['header hashes of VBK/BTC blocks are preset (no progpow/SHA-256 for headers); payload ids use the real SHA-256 (executed concretely)', 'signatures are arbitrary bytes: stateless checks are not part of tree operations',
               'scenario parameters are case-split (concrete per path): this harness is exhaustive over its finite scenario space, not over all payload contents', 'VTBs / BTC context, mempool and finalization are not exercised by this harness']
