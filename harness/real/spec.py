import os, sys
sys.path.insert(0, os.path.join(os.path.dirname(os.path.abspath(__file__)), '..', 'common'))
import srcsets_real
REAL_OBL = ['REAL AltBlockTree/VbkBlockTree/BTC tree: setState(target) succeeds iff every payload on root..target satisfies the independent integer specification (VBK context connects, no payload id repeated in an ancestor, ATV block of proof connects, publication-data context info matches the endorsed block, endorsed block on the same chain within the settlement interval)',
            'REAL trees: failed setState / non-negative comparePopScore leave tip and the digest of all three trees unchanged except validity marks on the target branch; first invalid block FAILED_POP, descendants failed',
            'REAL trees: after every public call exactly root..tip applied, counters agree, tip fully valid, connected blocks have connected ancestors, tips == valid leaves, ALT payload index maps every payload id to its containing block, VBK blocks exist exactly while referenced and equal the set the specification predicts',
            'REAL trees: blocks reporting full validity re-activate; returning to the first target reproduces the digest recorded there']
HARNESSES = [
    {'name': 'h_real', 'src': 'real/h_real.cpp', 'entry': 'h_real', 'repo_srcs': srcsets_real.REAL, 'covers': [1, 2, 3, 4, 5, 7, 8], 'jobs': 16, 'obligations': REAL_OBL,
     'rungs': {'quick': [{'defines': ['NALT=3', 'NATV=1', 'NVBK=3'], 'bound': 'ALT tree: every shape on 3 blocks; per block VBK context range [lo..hi] within a 3-block VBK chain, at most 1 ATV (endorsed block 1..3, honest or foreign context info, containing VBK block 2..3); bodies arrive children first; setState, {setState|comparePopScore}, probes', 'timeout': 280}],
               'thorough': [{'defines': ['NALT=3', 'NATV=2', 'NVBK=4', 'BOTH_ORDERS'], 'bound': 'ALT tree 3 blocks, 2 ATVs, 4-block VBK chain, both body arrival orders', 'timeout': 4000}, {'defines': ['NALT=3', 'NATV=1', 'NVBK=4', 'BOTH_ORDERS'], 'bound': 'ALT tree 3 blocks, 1 ATV, 4-block VBK chain, both arrival orders', 'timeout': 1500}]}},
    {'name': 'h_realvtb', 'src': 'real/h_realvtb.cpp', 'entry': 'h_realvtb', 'repo_srcs': srcsets_real.REAL, 'covers': [1, 2, 3], 'jobs': 16,
     'obligations': ['REAL trees with VTBs: setState succeeds iff VBK context connects, the VTB containing block is known, its BTC context connects to a BTC block already referenced at or below the containing VBK height, the endorsed VBK block is an ancestor of the containing block, no payload id repeats in an ancestor',
                     'REAL trees with VTBs: after every switch the BTC tree holds exactly the blocks the independent specification predicts for the active chain, with exactly the same multiset of reference heights; VBK blocks likewise; applied set exact'],
     'rungs': {'quick': [{'defines': ['NVTB=1', 'SIMPLECTX'], 'bound': 'ALT chain 1-2-3 + fork block 4; VBK and BTC chains of 3 blocks; per ALT block whole VBK context or none; 1 VTB with symbolic endorsed/containing VBK block, BTC block of proof and BTC context start; setState x3', 'timeout': 280}],
               'thorough': [{'defines': ['NVTB=2'], 'bound': 'as quick with every VBK context range and 2 VTBs', 'timeout': 5000}, {'defines': ['NVTB=1'], 'bound': 'as quick with every VBK context range', 'timeout': 900}]}},
]
MEMPOOL_HARNESSES = [
    {'name': 'h_mempool_vbk', 'src': 'real/h_mempool.cpp', 'entry': 'h_mempool', 'repo_srcs': srcsets_real.REAL, 'defines': ['MODE_VBK'], 'covers': [1, 2], 'jobs': 16,
     'obligations': ['REAL MemPool: after every submit each known VBK block is connected XOR in flight, never lost; per-type map, relations and the height-sorted in-flight view describe the same set; isKnown agrees',
                     'REAL MemPool: generatePopData connects every in-flight block whose missing context has been submitted (any submission order, forks, orphans) and returns exactly the connectable context',
                     'REAL MemPool (C12): generatePopData leaves the ALT/VBK/BTC views unchanged, respects the limits, and a next ALT block carrying exactly this PopData connects and activates',
                     'REAL MemPool: removeAll forgets what went into a block; it never reappears in later generatePopData'],
     'rungs': {'quick': [{'defines': ['NSUB=4'], 'bound': 'VBK blocks from a miner tree (chain of 4, a fork of 2) submitted in every order of 4 submissions (with repeats), then generatePopData, block acceptance, removeAll, generatePopData', 'timeout': 280}],
               'thorough': [{'defines': ['NSUB=6'], 'bound': 'every sequence of 6 submissions', 'timeout': 3000}, {'defines': ['NSUB=5'], 'bound': 'every sequence of 5 submissions', 'timeout': 900}]}},
    {'name': 'h_mempool_submit', 'src': 'real/h_mempool.cpp', 'entry': 'h_mempool', 'repo_srcs': srcsets_real.REAL, 'defines': ['MODE_SUBMIT'], 'covers': [1, 2, 3, 4], 'jobs': 16, 'override': True,
     'obligations': ['REAL MemPool through the natural submit<VbkBlock|ATV|VTB> paths (stateless + stateful checks; statelessly valid hand-made ATV and VTB with real ids / SHA-256 / Merkle roots, signature and address-derivation verdicts are link-level oracles answering valid): after every submit the per-type maps, the VBK relations and isKnown describe the same set, each payload is connected XOR in flight, nothing is lost or invented',
                     'generatePopData connects in-flight payloads whose VBK context has been submitted (any order), offers them, is side-effect free on the three trees, respects the limits, passes the stateless checks, and a next ALT block carrying exactly it connects and activates (C12)',
                     'removeAll forgets the payloads of the accepted block, they never reappear, and the next generatePopData is again valid for the next block; no freed memory is touched anywhere (engine obligation)'],
     'rungs': {'quick': [{'defines': ['NSUB=3'], 'bound': 'payload universe {VBK2, VBK3, VBK4, ATV A (in VBK3, endorses ALT 2), VTB V (in VBK4, endorses VBK2 in BTC 2)}; every sequence of 3 submissions (repeats allowed), then generatePopData, block, removeAll, generatePopData, block', 'timeout': 280}],
               'thorough': [{'defines': ['NSUB=5'], 'bound': 'every sequence of 5 submissions', 'timeout': 3000}, {'defines': ['NSUB=4'], 'bound': 'every sequence of 4 submissions', 'timeout': 900}]}},
    {'name': 'h_mempool_limits', 'src': 'real/h_mempool.cpp', 'entry': 'h_mempool', 'repo_srcs': srcsets_real.REAL, 'defines': ['MODE_LIMITS'], 'covers': [1, 2, 3], 'jobs': 16, 'override': True,
     'obligations': ['REAL MemPool::generatePopData under small configured limits (max VBK blocks / VTBs / ATVs per ALT block, PopData byte limit at and just below the sizes that matter): every generated PopData respects every limit, has no duplicate ids, leaves the trees untouched, and the next ALT block carrying exactly it activates; three rounds (generate, block, removeAll): nothing is offered twice; with generous limits everything is offered at once'],
     'rungs': {'quick': [{'bound': 'pool {VBK2..5, ATV in VBK3, VTB in VBK4, ATV in VBK5}; max VBK 1..4, max VTB 0..1, max ATV 0..2, 5 byte limits (generous, exact size of everything, one less, context+first ATV, one less); 3 rounds', 'timeout': 280}],
               'thorough': [{'bound': 'as quick', 'timeout': 900}]}},
    {'name': 'h_mempool_vbktie', 'src': 'real/h_mempool.cpp', 'entry': 'h_mempool', 'repo_srcs': srcsets_real.REAL, 'defines': ['MODE_VBKTIE'], 'covers': [1, 2], 'jobs': 2, 'override': True,
     'obligations': ['REAL MemPool::generatePopData with two equal-work VBK forks on chain and a pooled block extending one of them: all three trees including the VBK best chain (first-seen fork) are exactly as before the call; the block is offered; once a real ALT block carries it the extended fork becomes best'],
     'rungs': {'quick': [{'bound': 'VBK forks 3 and 4 on block 2; pooled block 5 on either', 'timeout': 200}], 'thorough': [{'bound': 'as quick', 'timeout': 400}]}},
    {'name': 'h_mempool_vtbfork', 'src': 'real/h_mempool.cpp', 'entry': 'h_mempool', 'repo_srcs': srcsets_real.REAL, 'defines': ['MODE_VTBFORK'], 'covers': [1, 2], 'jobs': 2, 'override': True,
     'obligations': ['REAL MemPool::generatePopData with a pooled VTB whose containing block is on a shorter, inactive VBK fork: the three trees and the VBK payload index are exactly as before the call (the VTB leaves the unapplied fork block again), it is offered, and the next block carrying it activates with exactly one copy'],
     'rungs': {'quick': [{'bound': 'VBK main chain of 3, containing fork block on block 2 or 3', 'timeout': 200}], 'thorough': [{'bound': 'as quick', 'timeout': 400}]}},
    {'name': 'h_mempool_timely', 'src': 'real/h_mempool.cpp', 'entry': 'h_mempool', 'repo_srcs': srcsets_real.REAL, 'defines': ['MODE_TIMELY'], 'covers': [1, 2], 'jobs': 8, 'override': True,
     'obligations': ['REAL MemPool timeliness == tree timeliness: an honest ATV endorsing block E is accepted by submit and offered by generatePopData on tip T exactly when a next block carrying it directly activates (T.height + 1 <= E.height + settlement interval), including the last timely block'],
     'rungs': {'quick': [{'bound': 'ALT chain of 4, tip 2..4, endorsed block 1..tip, settlement interval 3', 'timeout': 200}], 'thorough': [{'bound': 'as quick', 'timeout': 400}]}},
    {'name': 'h_mempool_pair', 'src': 'real/h_mempool.cpp', 'entry': 'h_mempool', 'repo_srcs': srcsets_real.REAL, 'defines': ['MODE_PAIR'], 'covers': [1, 2], 'jobs': 4, 'override': True,
     'obligations': ['REAL MemPool with two honest ATVs of different miners that endorse the same ALT block with the same fee in the same VBK block (real two-leaf Merkle tree): both are accepted, the views agree, both are offered once, the next block carrying them activates with two endorsements, removeAll forgets both; a resubmission changes nothing'],
     'rungs': {'quick': [{'bound': 'both submission orders, optional resubmission', 'timeout': 200}], 'thorough': [{'bound': 'as quick', 'timeout': 400}]}},
    {'name': 'h_mempool_stale2', 'src': 'real/h_mempool.cpp', 'entry': 'h_mempool', 'repo_srcs': srcsets_real.REAL, 'defines': ['MODE_STALE2'], 'covers': [1, 2, 3], 'jobs': 6, 'override': True,
     'obligations': ['REAL MemPool, stale path reached naturally: 1..2 ATVs connected through submit<ATV>, then the VBK tip moves beyond the old-blocks window; cleanUp / removeAll / generatePopData drop them without touching freed memory (engine obligation), the views agree, they are forgotten and never reappear'],
     'rungs': {'quick': [{'bound': '1..2 ATVs in VBK block 3, optional VTB in VBK block 4, VBK tip 3 blocks higher, old-blocks window 1; three ways of triggering the clean-up', 'timeout': 250}], 'thorough': [{'bound': 'as quick', 'timeout': 500}]}},
    {'name': 'h_mempool_stale', 'src': 'real/h_mempool.cpp', 'entry': 'h_mempool', 'repo_srcs': srcsets_real.REAL, 'defines': ['MODE_STALE'], 'covers': [1], 'jobs': 2,
     'obligations': ['REAL MemPool::cleanUp on a pool holding 1..2 connected ATVs whose VBK block fell behind the old-blocks window: no freed memory is touched (engine use-after-free check), stale payloads are forgotten'],
     'rungs': {'quick': [{'bound': '1..2 connected ATVs on a VBK block 3 blocks behind the VBK tip, old-blocks window 1 (pool state constructed directly: what a successful submit<ATV> leaves)', 'timeout': 200}], 'thorough': [{'bound': 'as quick', 'timeout': 400}]}},
    {'name': 'h_mempool_reject', 'src': 'real/h_mempool.cpp', 'entry': 'h_mempool', 'repo_srcs': srcsets_real.REAL, 'defines': ['MODE_REJECT'], 'covers': [1, 2], 'jobs': 3,
     'obligations': ['REAL MemPool::generatePopData with a connected ATV that is contextually invalid on the tip (endorsed block on another fork): the ATV is not offered, the ALT payload index and all trees are exactly as before (the temporary block leaves no trace), and the returned PopData activates in the next block',
                     'a contextually valid connected ATV is offered'],
     'rungs': {'quick': [{'bound': 'ALT chain 1-2 plus fork block 3; one connected ATV endorsing block 1, 2 or 3 (pool state constructed directly: what a successful submit<ATV> leaves)', 'timeout': 200}], 'thorough': [{'bound': 'as quick', 'timeout': 400}]}},
    {'name': 'h_mempool_dup', 'src': 'real/h_mempool.cpp', 'entry': 'h_mempool', 'repo_srcs': srcsets_real.REAL, 'defines': ['MODE_DUP'], 'covers': [1, 2], 'jobs': 2,
     'obligations': ['REAL MemPool::removeAll with a VTB that is connected once or twice (resubmission of a connected payload): afterwards neither the per-type map nor the VBK relations hold it, and generatePopData never returns it again'],
     'rungs': {'quick': [{'bound': 'one VTB connected 1..2 times on VBK block 3 (pool state constructed directly), removeAll, generatePopData', 'timeout': 200}], 'thorough': [{'bound': 'as quick', 'timeout': 400}]}},
]
CMP_HARNESSES = [
    {'name': 'h_realcmp', 'src': 'real/h_realcmp.cpp', 'entry': 'h_realcmp', 'repo_srcs': srcsets_real.REAL, 'covers': [1, 2, 3, 4], 'jobs': 16,
     'obligations': ['REAL AltBlockTree::comparePopScore on two real forks with endorsed keystones: the sign of the verdict is the sign of the protocol scoring (publication = VBK height of the endorsement\'s block of proof, lateness weighted by the lookup table, no publication loses, equal scores tie), the better chain is active afterwards, and the winner does not lose when asked again from its side'],
     'rungs': {'quick': [{'bound': 'two forks of 3 blocks from the bootstrap block, keystone interval 2, one keystone each, publication heights none/1/2/4/10 per fork (25 combinations), default ALT table and finality delay', 'timeout': 300}], 'thorough': [{'bound': 'as quick', 'timeout': 600}]}},
]
VBKADD_HARNESSES = [
    {'name': 'h_vbkadd', 'src': 'real/h_vbkadd.cpp', 'entry': 'h_vbkadd', 'repo_srcs': srcsets_real.REAL, 'covers': [1, 2, 3, 4, 5, 6], 'jobs': 8,
     'obligations': ['REAL VbkBlockTree::addPayloads with two VTBs in one call: it succeeds iff every VTB is valid in the given order; when it fails the VBK and BTC views (blocks, FAILED/ACTIVE bits, reference counts, payload ids, endorsements, best chains, applied count) are exactly as before the call - every VTB applied earlier in the same call is rolled back and, for a containing block off the active VBK chain, the VBK tip is restored',
                     'a successful call can be taken back with removePayloads: the BTC tree is empty again'],
     'rungs': {'quick': [{'bound': 'containing block 3, 4 (active VBK chain) or 5 (fork); second VTB valid / duplicate / endorsing a block of another fork / block of proof with unknown parent; both orders', 'timeout': 250}], 'thorough': [{'bound': 'as quick', 'timeout': 500}]}},
]
CTX_HARNESSES = [
    {'name': 'h_realrefs', 'src': 'real/h_realrefs.cpp', 'entry': 'h_realrefs', 'repo_srcs': srcsets_real.REAL, 'covers': [1, 2, 3, 4], 'jobs': 16,
     'obligations': ['REAL VbkBlockTree BTC-context rule with one BTC block referenced at two VBK heights recorded in either order: a VTB whose BTC context connects to that block is valid iff SOME reference height is at or below its containing height (set semantics, independent of recording order and of a detour through another fork); reference heights of the new BTC block are exactly the containing height'],
     'rungs': {'quick': [{'bound': 'three VTBs with containing VBK heights 2..4 each (27 combinations), with and without leaving and re-activating the chain', 'timeout': 300}], 'thorough': [{'bound': 'as quick', 'timeout': 600}]}},
    {'name': 'h_realctx', 'src': 'real/h_realctx.cpp', 'entry': 'h_realctx', 'repo_srcs': srcsets_real.REAL, 'covers': [1, 2, 3, 4, 5, 6], 'jobs': 6,
     'obligations': ['REAL AltBlockTree: an ATV whose context info differs from the endorsed block\'s own in exactly one component (height, first previous keystone, second previous keystone) makes its block invalid; the honest one activates',
                     'REAL AltBlockTree: a payload carried legitimately by two sibling fork blocks is still detected as a duplicate in a descendant of the surviving fork after the other fork was removed (removeSubtree) or emptied (removePayloads)'],
     'rungs': {'quick': [{'bound': 'ALT chain of 7 (keystone interval 2, endorsed block at height 5 has both previous keystones), 4 context variants; fork scenario: 2 x 2 variants', 'timeout': 250}], 'thorough': [{'bound': 'as quick', 'timeout': 500}]}},
]
INV_HARNESSES = [
    {'name': 'h_realbody', 'src': 'real/h_realbody.cpp', 'entry': 'h_realbody', 'repo_srcs': srcsets_real.REAL, 'covers': [1, 2, 3], 'jobs': 8,
     'obligations': ['REAL AltBlockTree with bodies arriving before their parent\'s and removePayloads() on connected and on not-yet-connected blocks: after every call the ALT payload index is exactly the set of (payload id, block) pairs of the existing blocks (both directions), the tip set is the set of usable blocks without usable child, connected blocks have connected ancestors',
                     'payloads removed from a block and delivered again in a descendant are not duplicates: the chain activates'],
     'rungs': {'quick': [{'bound': 'ALT chain of 4; both body orders of blocks 2 and 3; removePayloads never / after the first body / after both, on block 2 or 3; optional ATV', 'timeout': 250}], 'thorough': [{'bound': 'as quick', 'timeout': 500}]}},
    {'name': 'h_realinv', 'src': 'real/h_realinv.cpp', 'entry': 'h_realinv', 'repo_srcs': srcsets_real.REAL, 'covers': [1, 2, 3, 4], 'jobs': 16,
     'obligations': ['REAL AltBlockTree under histories mixing setState / invalidateSubtree / revalidateSubtree / removeSubtree / re-announcement of a removed block: after every call links, heights, failed-propagation and the tip set are consistent, the best chain runs only through valid blocks, exactly root..tip are ACTIVE and applied, the payload index describes exactly the payloads of the existing blocks, the VBK tree holds exactly the context of the active chain, removed blocks are in no view',
                     'invalidateSubtree marks the whole subtree and moves the tip out of it; revalidateSubtree of the block that carries the mark clears it; setState refuses exactly the failed blocks'],
     'rungs': {'quick': [{'defines': ['NOPS=2'], 'bound': 'ALT tree 1-2-{3,4}, 5 on 1; VBK context in blocks 2, 3 and 4 (3 and 4 carry the same VBK block: one payload id, two containing blocks), optional ATV in 4; any first tip; every sequence of 2 operations (5 kinds x 4 targets)', 'timeout': 300}],
               'thorough': [{'defines': ['NOPS=3'], 'bound': 'every sequence of 3 operations', 'timeout': 1500}]}},
]
PAYOUT_HARNESSES = [
    {'name': 'h_payout', 'src': 'real/h_payout.cpp', 'entry': 'h_payout', 'repo_srcs': srcsets_real.REAL, 'covers': [1, 2, 3, 4], 'jobs': 16,
     'obligations': ['REAL getPopPayout on the real trees == independent specification of who is paid what: the block paid is the tip\'s ancestor at the payout delay; only endorsements whose block of proof is on the VBK best chain count (a losing VBK fork does not, neither for the score nor for the best publication height); weights by relative VBK height from the lookup table; difficulty = averaged score of the preceding blocks (minimum 1); amounts of the same miner accumulate; nobody else is paid'],
     'rungs': {'quick': [{'bound': 'ALT chain of 6, payout delay 3, averaging interval 2, table {1,1,0.5,0.25,0.1}; VBK best chain of 6 blocks and a losing fork of 2; two ATVs for the paid block (block of proof 4 choices incl. the fork, miner 2 choices each); the two preceding blocks endorsed 0/1 and 0/3 times; arithmetic kernels taken from h_reward', 'timeout': 600}],
               'thorough': [{'bound': 'as quick', 'timeout': 900}]}},
]
RELOAD_HARNESSES = [
    {'name': 'h_reload', 'src': 'real/h_reload.cpp', 'entry': 'h_reload', 'repo_srcs': srcsets_real.REAL + ['src/pop/storage/adaptors/block_provider_impl.cpp'], 'covers': [1, 2, 3, 4, 5], 'jobs': 16,
     'obligations': ['REAL trees saved with saveTrees() through the library adaptors (BlockBatchImpl/BlockReaderImpl over InmemStorageImpl: every index is serialized and parsed back) and loaded into a fresh AltBlockTree with loadTrees(): the loaded instance has the same blocks, heights, status bits, payload ids, endorsements, reference counts, chain work, tips and best chains in the ALT, VBK and BTC trees',
                     'the same holds after a continuation (switch / new block carrying an endorsement at the last timely distance / invalidate+revalidate / the body of an already saved header arrives) followed by an INCREMENTAL save (only dirty indices written)',
                     'after loading, both instances give the same verdict and reach the same state for one more setState; every index is clean after a save'],
     'rungs': {'quick': [{'bound': 'ALT tree 1-2-{3,4}, 5 on 1; VBK context of 3 blocks, optional VTB (in ALT 2), optional ATVs (ALT 3, ALT 4), optional contextually invalid block 5; header-only block 7 on 3 with child 8 whose body is already there; any first tip; 6 continuations (incl. removal of an already saved fork block); normal and fast load; any final target', 'timeout': 450}],
               'thorough': [{'bound': 'as quick', 'timeout': 900}]}},
]
SP_HARNESSES = [
    {'name': 'h_realsp', 'src': 'real/h_realsp.cpp', 'entry': 'h_realsp', 'repo_srcs': srcsets_real.REAL, 'covers': [1, 2, 3, 5], 'jobs': 8,
     'obligations': ['REAL trees, two equal-work VBK branches: a failed setState and a comparePopScore the tip does not lose leave every observable of the ALT, VBK and BTC views unchanged, including the VBK best chain (first-seen branch), although applying the candidate moved it',
                     'REAL trees: switching to the candidate and back reproduces the digest (VBK best chain, reference counts, VTB lists, endorsements)'],
     'rungs': {'quick': [{'bound': 'VBK fork 2-3 / 2-4 delivered by the common ALT prefix in either order; candidate chain with a VTB contained in either branch, carried by either of its blocks, with or without a trailing invalid ATV; setState or comparePopScore', 'timeout': 250}],
               'thorough': [{'bound': 'as quick', 'timeout': 600}]}},
    {'name': 'h_realsp_unequal', 'src': 'real/h_realsp.cpp', 'entry': 'h_realsp', 'repo_srcs': srcsets_real.REAL, 'defines': ['UNEQUAL', 'VBK_KI=2'], 'covers': [1, 2, 3, 4], 'jobs': 2,
     'obligations': ['REAL trees: a VTB on the lighter VBK branch flips VBK fork resolution while its ALT chain is applied; after switching back the VBK best chain is again the heavier branch and the digest of all three trees equals the one recorded before (POP state depends only on the active chain, no tie involved)'],
     'rungs': {'quick': [{'bound': 'VBK branches 2-3-5 (heavier) and 2-4, optionally extended to 2-3-5-7 and 2-4-6 (the VTB then sits in a mid-fork block), VBK keystone interval 2, VTB endorsing block 4 carried by either block of the candidate chain, either delivery order', 'timeout': 250}], 'thorough': [{'bound': 'as quick', 'timeout': 600}]}},
    {'name': 'h_realsp_refs', 'src': 'real/h_realsp.cpp', 'entry': 'h_realsp', 'repo_srcs': srcsets_real.REAL, 'defines': ['REFS'], 'covers': [1, 2], 'jobs': 2,
     'obligations': ['REAL trees: a BTC block referenced by VTBs of two ALT forks at different VBK heights; the fork validated earlier wins comparePopScore so the active chain is unapplied underneath it; afterwards the BTC block carries exactly the reference height of the winning chain, and exactly the other one after switching back'],
     'rungs': {'quick': [{'bound': 'containing VBK heights (2,3) or (3,2) for the two forks; history setState(B), setState(A), comparePopScore(A,B), setState(A)', 'timeout': 250}], 'thorough': [{'bound': 'as quick', 'timeout': 600}]}},
]
FIN_HARNESSES = [
    {'name': 'h_realfin', 'src': 'real/h_realfin.cpp', 'entry': 'h_realfin', 'repo_srcs': srcsets_real.REAL, 'covers': [1, 2, 3, 4], 'jobs': 8,
     'obligations': ['REAL AltBlockTree: an instance that finalizes (ALT -> VBK -> BTC cascade, blocks deallocated) gives the same validity result, activation result and tip for the next block as a twin that never finalizes',
                     'REAL AltBlockTree: a payload id first seen in a block that has since been finalized and deallocated still makes a later block carrying it invalid; finalized blocks stay on the active chain'],
     'rungs': {'quick': [{'defines': ['LCH=6'], 'bound': 'linear ALT chain of 6 blocks, VBK context (1..2 blocks) in block 1 or 2, next block re-uses VBK block 2/3 or nothing, maxReorg 1..2, preserve 0..2', 'timeout': 250}],
               'thorough': [{'defines': ['LCH=8'], 'bound': 'linear ALT chain of 8 blocks, otherwise as quick', 'timeout': 1500}]}},
]
EXPLANATION = 'F-REAL: the real three-tree system runs in the engine with hand-made payloads (preset header hashes, real payload ids); the scenario space is explored exhaustively by solver-driven case splits and every verdict is compared with an independent integer specification.'
ASSUMPTIONS = ['header hashes of VBK/BTC blocks are preset (no progpow/SHA-256 for headers); payload ids use the real SHA-256 (executed concretely)', 'signatures are arbitrary bytes: stateless checks are not part of tree operations',
               'scenario parameters are case-split (concrete per path): this harness is exhaustive over its finite scenario space, not over all payload contents', 'VTBs / BTC context, mempool and finalization are not exercised by this harness']
