// F-REAL / mempool harness: the REAL MemPool + MemPoolBlockTree over the real three-tree system.
//  MODE_VBK  : VBK blocks (the only payload kind that needs no signature) from a miner-side tree with a fork and an orphan
//              are submitted in a symbolic order (with resubmits); then generatePopData / removeAll / cleanUp.
//              Obligations (C13): every payload known to the pool is connected XOR in flight; map / relations / sorted
//              in-flight view agree; everything connectable is connected by generatePopData; removed payloads are
//              forgotten.  (C12): the generated PopData respects the limits, contains nothing already on chain, is
//              statefully valid (a next block carrying it activates), and generatePopData leaves all trees untouched.
//  MODE_STALE: a reachable pool state (VBK block with ATVs connected) is constructed directly, the VBK tip moves beyond
//              the old-blocks window, cleanUp() runs: no freed memory is touched, stale payloads are forgotten.
#include "common/real_env.hpp"
#include <veriblock/pop/mempool.hpp>
#ifdef DBG
#include <cstdio>
#endif
using namespace vr;
#ifndef NSUB
#define NSUB 3
#endif
static RealWorld* W;
#if defined(MODE_SUBMIT) || defined(MODE_LIMITS) || defined(MODE_VBKTIE) || defined(MODE_TIMELY) || defined(MODE_PAIR) || defined(MODE_STALE2) || defined(MODE_VTBFORK)
// link-level oracles (spec: 'override'): signatures and address derivation answer "valid"; everything else is the real code
namespace altintegration {
bool Address::isDerivedFromPublicKey(Slice<const uint8_t>) const { return true; }
namespace secp256k1 {
PublicKey publicKeyFromVbk(PublicKeyVbk) { return PublicKey(); }
bool verify(Slice<const uint8_t>, Signature, PublicKey) { return true; }
}  // namespace secp256k1
}  // namespace altintegration
// the per-type maps, the VBK relations and isKnown describe the same SET (C13): a resubmitted connected payload may sit twice in
// its relation (equal content), which is counted once here; what such a
// duplicate may NOT do is show up in generatePopData (checks 14, 16) or survive removeAll (checks 20..23)
static void checkViews(MemPool& mp, int base) {
  size_t relAtvs = 0, relVtbs = 0;
  for (auto& kv : mp.relations_) {
    auto& r = *kv.second;
    verif_check(r.header && r.header->getId() == kv.first, base);
    verif_check(mp.vbkblocks_.count(kv.first) == 1, base + 1);
    for (auto& a : r.atvs) { bool seen = false; for (auto& o : r.atvs) { if (o.get() == a.get()) break; seen = seen || o->getId() == a->getId(); } relAtvs += !seen; verif_check(mp.stored_atvs_.count(a->getId()) == 1 && a->blockOfProof.getId() == kv.first, base + 2); }
    for (auto& v : r.vtbs) { bool seen = false; for (auto& o : r.vtbs) { if (o.get() == v.get()) break; seen = seen || o->getId() == v->getId(); } relVtbs += !seen; verif_check(mp.stored_vtbs_.count(v->getId()) == 1 && v->containingBlock.getId() == kv.first, base + 3); }
  }
#ifdef DBG
  fprintf(stderr, "views: relAtvs=%zu stored=%zu relVtbs=%zu storedv=%zu rel=%zu vbk=%zu\n", relAtvs, mp.stored_atvs_.size(), relVtbs, mp.stored_vtbs_.size(), mp.relations_.size(), mp.vbkblocks_.size());
#endif
  verif_check(relAtvs == mp.stored_atvs_.size(), base + 4);
  verif_check(relVtbs == mp.stored_vtbs_.size(), base + 5);
  verif_check(mp.relations_.size() == mp.vbkblocks_.size(), base + 6);
  for (auto& kv : mp.stored_atvs_) verif_check(mp.getInFlightMap<ATV>().find(kv.first) == mp.getInFlightMap<ATV>().end(), base + 7);   // connected XOR in flight
  for (auto& kv : mp.stored_vtbs_) verif_check(mp.getInFlightMap<VTB>().find(kv.first) == mp.getInFlightMap<VTB>().end(), base + 8);
  for (auto& kv : mp.vbkblocks_) verif_check(mp.getInFlightMap<VbkBlock>().find(kv.first) == mp.getInFlightMap<VbkBlock>().end(), base + 9);
}
#endif
static uint64_t mixh(uint64_t h, uint64_t v) { h ^= v + 0x9e3779b97f4a7c15ull + (h << 6) + (h >> 2); return h * 0x100000001b3ull; }
static uint64_t treesDigest() {
  AltBlockTree& t = *W->alt;
  uint64_t sum = 0;
  // validity LEVEL raises (e.g. a fork block reaching BLOCK_CAN_BE_APPLIED while the temporary block is validated) are monotone bookkeeping, not a view: FAILED bits, ACTIVE and DELETED are compared
  const uint32_t M = BLOCK_FAILED_MASK | BLOCK_ACTIVE | BLOCK_DELETED;
  for (auto* b : t.getBlocks()) sum += mixh(mixh(3, b->getHash()[0]), b->getStatus() & M);
  for (auto* b : t.vbk().getBlocks()) sum += mixh(mixh(5, b->getHash().data()[23]), (uint64_t)(b->getStatus() & M) * 16 + b->refCount());
  sum = mixh(sum, t.vbk().getBestChain().tip()->getHash().data()[23]);
  sum = mixh(sum, t.getBestChain().tip()->getHash()[0]);
  sum = mixh(sum, t.btc().getBlocks().size());
  sum = mixh(sum, t.vbk().getTips().size());
  return sum;
}
extern "C" __attribute__((noinline)) void h_mempool() {
  RealWorld& w = newRealWorld();
  W = &w;
  AltBlockTree& t = *w.alt;
  auto& mp = *new MemPool(t);
#if defined(MODE_VBK)
  // miner side: chain 1-2-3-4, fork 5 on 2, and 6 on 5
  mineVbk(w, 1); mineVbk(w, 2); mineVbk(w, 3); mineVbk(w, 2); mineVbk(w, 5);
  const int NB = 6;
  const int prevOf[NB + 1] = {0, 0, 1, 2, 3, 2, 5};
  bool submitted[NB + 1] = {false};
  for (int k = 0; k < NSUB; k++) {
    int id = (int)verif_choice(2, NB);
    ValidationState st;
    auto res = mp.submit<VbkBlock>(w.vbkById[id], true, st);
    submitted[id] = true;
    (void)res;
    // every known block is connected XOR in flight, and the views agree
    size_t conn = mp.getMap<VbkBlock>().size(), infl = mp.getInFlightMap<VbkBlock>().size();
    size_t known = 0;
    for (int x = 2; x <= NB; x++) {
      auto bid = w.vbkById[x].getId();
      bool c = mp.getMap<VbkBlock>().count(bid) > 0, f = mp.getInFlightMap<VbkBlock>().find(bid) != mp.getInFlightMap<VbkBlock>().end();
      verif_check(!(c && f), 1);                              // never both
      verif_check((c || f) == submitted[x], 2);               // never lost, never invented
      verif_check(mp.isKnown<VbkBlock>(bid, true) == submitted[x], 3);
      known += (c || f);
    }
    verif_check(conn + infl == known, 4);
    verif_check(mp.getInFlightMap<VbkBlock>().getSortedValues().size() == infl, 5);   // sorted in-flight view describes the same set
  }
  // which submitted blocks connect (transitively) to the VBK tree
  bool connectable[NB + 1] = {false}; connectable[1] = true;
  for (int r = 0; r < NB; r++) for (int x = 2; x <= NB; x++) if (submitted[x] && connectable[prevOf[x]]) connectable[x] = true;
  uint64_t before = treesDigest();
  PopData pd = mp.generatePopData();
  verif_check(treesDigest() == before, 6);                    // generatePopData leaves the ALT / VBK / BTC views as it found them (C12)
  for (int x = 2; x <= NB; x++) {
    auto bid = w.vbkById[x].getId();
    if (submitted[x]) verif_check((mp.getMap<VbkBlock>().count(bid) > 0) == connectable[x], 7);   // connectable in-flight blocks were connected, whatever the order
    bool inPd = false; for (auto& b : pd.context) inPd = inPd || b.getId() == bid;
    verif_check(inPd == (submitted[x] && connectable[x]), 8);  // the PopData carries exactly the connectable context
  }
  verif_check(pd.context.size() <= w.ap.getMaxVbkBlocksInAltBlock() && pd.estimateSize() <= w.ap.getMaxPopDataSize(), 9);
  // statefully valid on top of the current tip: a next block carrying exactly this PopData connects and activates (C12)
  addAltHeader(w, 2, 1);
  t.acceptBlock(altHash(2), pd);
  ValidationState st2;
  verif_check(t.setState(altHash(2), st2), 10);
  if (!pd.context.empty()) verif_cover(1);
  // removeAll forgets what went into the block
  mp.removeAll(pd);
  for (auto& b : pd.context) { verif_check(mp.getMap<VbkBlock>().count(b.getId()) == 0, 11); verif_check(!mp.isKnown<VbkBlock>(b.getId(), true), 12); }
  PopData pd2 = mp.generatePopData();
  for (auto& b : pd2.context) { bool was = false; for (auto& o : pd.context) was = was || o.getId() == b.getId(); verif_check(!was, 13); }   // removed payloads never reappear
  bool orphanLeft = false; for (int x = 2; x <= NB; x++) orphanLeft = orphanLeft || (submitted[x] && !connectable[x]);
  if (orphanLeft) verif_cover(2);
  verif_observe(pd.context.size());
#elif defined(MODE_SUBMIT)
  // ALT 1-2 active.  Miner side: VBK 1-2, then VBK 3 (on 2) carries ATV A endorsing ALT 2, VBK 4 (on 3) carries VTB V that
  // endorses VBK 2 in BTC block 2.  The five payloads {VBK2, VBK3, VBK4, A, V} are submitted NSUB times in a symbolic order
  // (repeats allowed) through the real submit<> paths (stateless + stateful checks).
  addAltHeader(w, 2, 1);
  { PopData none; t.acceptBlock(altHash(2), none); ValidationState s; verif_check(t.setState(altHash(2), s), 1); }
  mineVbk(w, 1);                                                    // VBK 2
  ATV A = makeValidATV(w, 2, 2, 1);                                 // VBK 3 = block of proof of A
  VTB V = makeValidVTB(w, 2, 3, 1, 2);                              // BTC 2, VBK 4 = containing block of V
  enum { P_VBK2, P_VBK3, P_VBK4, P_A, P_V, NP };
  bool sub[NP] = {false};
  for (int k = 0; k < NSUB; k++) {
    uint32_t what = verif_choice(0, NP - 1);
    ValidationState st;
    MemPool::SubmitResult r;
    if (what <= P_VBK4) r = mp.submit<VbkBlock>(w.vbkById[2 + what], true, st);
    else if (what == P_A) r = mp.submit<ATV>(A, true, st);
    else r = mp.submit<VTB>(V, true, st);
    verif_check(r.status != MemPool::FAILED_STATELESS, 2);          // honest payloads pass the stateless checks (C19/C05 side)
    sub[what] = true;
    checkViews(mp, 100);
    // never lost, never invented
#ifdef DBG
    fprintf(stderr, "k=%d what=%u status=%d known vbk: %d %d %d  A:%d/%d V:%d/%d rel=%zu vbkblocks=%zu\n", k, what, (int)r.status, (int)mp.isKnown<VbkBlock>(w.vbkById[2].getId(), true), (int)mp.isKnown<VbkBlock>(w.vbkById[3].getId(), true), (int)mp.isKnown<VbkBlock>(w.vbkById[4].getId(), true),
            (int)mp.isKnown<ATV>(A.getId(), false), (int)mp.isKnown<ATV>(A.getId(), true), (int)mp.isKnown<VTB>(V.getId(), false), (int)mp.isKnown<VTB>(V.getId(), true), mp.relations_.size(), mp.vbkblocks_.size());
#endif
    for (int x = 0; x < 3; x++) verif_check(mp.isKnown<VbkBlock>(w.vbkById[2 + x].getId(), true) == (sub[x] || (x == 1 && mp.getMap<ATV>().count(A.getId()) > 0) || (x == 2 && mp.getMap<VTB>().count(V.getId()) > 0)), 3);   // a connected ATV/VTB brings its VBK block along
    verif_check(mp.isKnown<ATV>(A.getId(), true) == sub[P_A], 4);
    verif_check(mp.isKnown<VTB>(V.getId(), true) == sub[P_V], 5);
  }
  uint64_t before = treesDigest();
  PopData pd = mp.generatePopData();
  verif_check(treesDigest() == before, 6);                          // side-effect free (C12)
  checkViews(mp, 200);
  // completeness: a payload whose whole VBK context was SUBMITTED is connected now, whatever the order (C13)
  bool ctxA = sub[P_VBK2], ctxV = sub[P_VBK2] && sub[P_VBK3];
  if (sub[P_A] && ctxA) verif_check(mp.getMap<ATV>().count(A.getId()) == 1, 7);
  if (sub[P_V] && ctxV) verif_check(mp.getMap<VTB>().count(V.getId()) == 1, 8);
  if (sub[P_A] && !ctxA) verif_check(mp.getInFlightMap<ATV>().find(A.getId()) != mp.getInFlightMap<ATV>().end(), 9);   // not connectable: still in flight, not lost
  // and is offered (both are statefully valid on the current tip)
  bool hasA = false, hasV = false;
  for (auto& a : pd.atvs) hasA = hasA || a.getId() == A.getId();
  for (auto& v : pd.vtbs) hasV = hasV || v.getId() == V.getId();
  if (sub[P_A] && ctxA) verif_check(hasA, 10);
  if (sub[P_V] && ctxV) verif_check(hasV, 11);
  verif_check(!hasA || sub[P_A], 12); verif_check(!hasV || sub[P_V], 13);
  verif_check(pd.atvs.size() <= 1 && pd.vtbs.size() <= 1 && pd.context.size() <= 3, 14);      // no duplicates, nothing invented
  verif_check(pd.estimateSize() <= w.ap.getMaxPopDataSize(), 15);
  { ValidationState cs; PopData copy = pd; copy.checked = false; for (auto& a : copy.atvs) a.checked = false; for (auto& v : copy.vtbs) v.checked = false;
    verif_check(copy.context.size() <= w.ap.getMaxVbkBlocksInAltBlock() && copy.vtbs.size() <= w.ap.getMaxVTBsInAltBlock() && copy.atvs.size() <= w.ap.getMaxATVsInAltBlock() && checkPopDataForDuplicates(copy, cs), 16);
    for (auto& a : copy.atvs) verif_check(checkATV(a, cs, w.ap, w.vp), 17);                   // passes the stateless checks (C12)
    for (auto& v : copy.vtbs) verif_check(checkVTB(v, cs, w.bp, w.vp), 18); }
  // statefully valid: the next block carrying exactly this PopData connects and activates (C12)
  addAltHeader(w, 3, 2);
  t.acceptBlock(altHash(3), pd);
  ValidationState st3;
  verif_check(t.setState(altHash(3), st3), 19);
  // the block is on chain now: removeAll forgets its payloads, nothing of it is offered again (C13)
  mp.removeAll(pd);
  checkViews(mp, 300);
  if (hasA) verif_check(!mp.isKnown<ATV>(A.getId(), true), 20);
  if (hasV) verif_check(!mp.isKnown<VTB>(V.getId(), true), 21);
  PopData pd2 = mp.generatePopData();
  checkViews(mp, 400);
  for (auto& a : pd2.atvs) verif_check(!hasA || a.getId() != A.getId(), 22);
  for (auto& v : pd2.vtbs) verif_check(!hasV || v.getId() != V.getId(), 23);
  for (auto& b : pd2.context) for (auto& o : pd.context) verif_check(b.getId() != o.getId(), 24);
  // whatever is offered now is again valid for the next block
  addAltHeader(w, 4, 3);
  t.acceptBlock(altHash(4), pd2);
  ValidationState st4;
  verif_check(t.setState(altHash(4), st4), 25);
  if (hasA && hasV) verif_cover(1);
  if (hasA && !hasV) verif_cover(2);
  if (sub[P_V] && !hasV) verif_cover(3);
  if (!pd2.context.empty() || !pd2.vtbs.empty() || !pd2.atvs.empty()) verif_cover(4);
  verif_observe(pd.context.size() * 16 + pd.atvs.size() * 4 + pd.vtbs.size());
#elif defined(MODE_LIMITS)
  // Everything connectable is in the pool (VBK 2..5, ATV A1 in VBK3, VTB V in VBK4, ATV A2 in VBK5); the configured block limits are
  // symbolic (case split): max VBK blocks / VTBs / ATVs per ALT block and the PopData byte limit (around the sizes that matter).
  // Three rounds of generatePopData -> next block carrying exactly it -> removeAll: every PopData respects every limit, has no
  // duplicates, is statefully valid (the block activates), and nothing is offered twice.
  addAltHeader(w, 2, 1);
  { PopData none; t.acceptBlock(altHash(2), none); ValidationState s; verif_check(t.setState(altHash(2), s), 1); }
  mineVbk(w, 1);                                                    // VBK 2
  ATV A1 = makeValidATV(w, 2, 2, 1);                                // in VBK 3
  VTB V = makeValidVTB(w, 2, 3, 1, 2);                              // in VBK 4 (BTC 2)
  ATV A2 = makeValidATV(w, 1, 4, 3);                                // in VBK 5
  { ValidationState st;
    verif_check(mp.submit<VbkBlock>(w.vbkById[2], true, st).isValid(), 2);
    verif_check(mp.submit<ATV>(A1, true, st).isValid(), 3);
    verif_check(mp.submit<VTB>(V, true, st).isValid(), 4);
    verif_check(mp.submit<ATV>(A2, true, st).isValid(), 5); }
  size_t fullSize;
  { PopData all; all.context = {w.vbkById[2], w.vbkById[3], w.vbkById[4], w.vbkById[5]}; all.vtbs = {V}; all.atvs = {A1, A2}; fullSize = all.estimateSize(); }
  size_t ctxOnly;
  { PopData c; c.context = {w.vbkById[2], w.vbkById[3]}; ctxOnly = c.estimateSize(); }
  w.ap.mMaxVbkBlocksInAltBlock = verif_choice(1, 4);
  w.ap.mMaxVTBsInAltBlock = verif_choice(0, 1);
  w.ap.mMaxATVsInAltBlock = verif_choice(0, 2);
  { uint32_t k = verif_choice(0, 4); const size_t sizes[5] = {1000000, fullSize, fullSize - 1, ctxOnly + A1.estimateSize(), ctxOnly + A1.estimateSize() - 1}; w.ap.mMaxPopDataSize = (uint32_t)sizes[k]; if (k >= 2) verif_cover(3); }
  bool seenA1 = false, seenA2 = false, seenV = false; int seenVbk = 0;
  for (int round = 0; round < 3; round++) {
    uint64_t before = treesDigest();
    PopData pd = mp.generatePopData();
    verif_check(treesDigest() == before, 6);                        // side-effect free
    verif_check(pd.context.size() <= w.ap.getMaxVbkBlocksInAltBlock(), 7);
    verif_check(pd.vtbs.size() <= w.ap.getMaxVTBsInAltBlock(), 8);
    verif_check(pd.atvs.size() <= w.ap.getMaxATVsInAltBlock(), 9);
    verif_check(pd.estimateSize() <= w.ap.getMaxPopDataSize(), 10);
    { ValidationState cs; verif_check(checkPopDataForDuplicates(pd, cs), 11); }
    for (auto& a : pd.atvs) { bool isA1 = a.getId() == A1.getId(), isA2 = a.getId() == A2.getId(); verif_check(isA1 || isA2, 12); verif_check(!(isA1 && seenA1) && !(isA2 && seenA2), 13); seenA1 = seenA1 || isA1; seenA2 = seenA2 || isA2; }
    for (auto& v : pd.vtbs) { verif_check(v.getId() == V.getId() && !seenV, 14); seenV = true; }
    seenVbk += (int)pd.context.size();
    if (round == 0 && w.ap.mMaxPopDataSize == 1000000 && w.ap.mMaxVbkBlocksInAltBlock == 4 && w.ap.mMaxVTBsInAltBlock == 1 && w.ap.mMaxATVsInAltBlock == 2) {
      verif_check(pd.context.size() == 4 && pd.vtbs.size() == 1 && pd.atvs.size() == 2, 15);   // nothing limits: everything is offered at once
      verif_cover(1);
    }
    uint8_t nb = (uint8_t)(3 + round);
    addAltHeader(w, nb, (uint8_t)(nb - 1));
    t.acceptBlock(altHash(nb), pd);
    ValidationState sx;
    verif_check(t.setState(altHash(nb), sx), 16);                   // statefully valid on the tip it was generated for
    mp.removeAll(pd);
    checkViews(mp, 100);
  }
  verif_check(seenVbk <= 4, 17);                                    // no VBK block was offered twice
  if (seenA1 && seenA2 && seenV && seenVbk == 4 && w.ap.mMaxVbkBlocksInAltBlock < 4) verif_cover(2);
  verif_observe((uint64_t)seenVbk * 8 + seenA1 * 4 + seenA2 * 2 + seenV);
#elif defined(MODE_VBKTIE)
  // the ALT tree's VBK tree holds two equal-work forks (3 and 4 on 2, first seen = 3 is best); the pool holds a block extending one of
  // them.  generatePopData applies it on a temporary block (the VBK best chain may move) and must put everything back (C12).
  addAltHeader(w, 2, 1);
  mineVbk(w, 1); mineVbk(w, 2); mineVbk(w, 2);                      // VBK 2, 3 (on 2), 4 (on 2)
  uint8_t ext = (uint8_t)verif_choice(3, 4);
  mineVbk(w, ext);                                                   // VBK 5 on the best fork (3) or on the other one (4)
  { PopData pd; pd.context = {w.vbkById[2], w.vbkById[3], w.vbkById[4]}; t.acceptBlock(altHash(2), pd); ValidationState s; verif_check(t.setState(altHash(2), s), 1); }
  verif_check(t.vbk().getBestChain().tip()->getHash() == w.vbkById[3].getHash(), 2);
  { ValidationState st; verif_check(mp.submit<VbkBlock>(w.vbkById[5], true, st).isAccepted(), 3); }
#ifdef DBG
  for (auto* b : t.vbk().getBlocks()) fprintf(stderr, "before vbk %d st=%x rc=%u\n", b->getHash().data()[23], b->getStatus(), (unsigned)b->refCount());
#endif
  uint64_t before = treesDigest();
  PopData pd = mp.generatePopData();
#ifdef DBG
  for (auto* b : t.vbk().getBlocks()) fprintf(stderr, "after  vbk %d st=%x rc=%u\n", b->getHash().data()[23], b->getStatus(), (unsigned)b->refCount());
  fprintf(stderr, "tip %d tips %zu\n", t.vbk().getBestChain().tip()->getHash().data()[23], t.vbk().getTips().size());
#endif
  verif_check(treesDigest() == before, 4);                          // incl. the VBK best chain: still the first-seen fork
  verif_check(t.vbk().getBestChain().tip()->getHash() == w.vbkById[3].getHash(), 5);
  verif_check(pd.context.size() == 1 && pd.context[0].getHash() == w.vbkById[5].getHash(), 6);
  addAltHeader(w, 3, 2);
  t.acceptBlock(altHash(3), pd);
  ValidationState s3;
  verif_check(t.setState(altHash(3), s3), 7);
  verif_check(t.vbk().getBestChain().tip()->getHash() == w.vbkById[5].getHash(), 8);   // now the extended fork really is the best one
  if (ext == 4) verif_cover(1); else verif_cover(2);
#elif defined(MODE_VTBFORK)
  // the pooled VTB sits in a block of a SHORTER, inactive VBK fork and endorses a block common to both VBK chains: validating it on the
  // temporary block activates the fork, adds the VTB, and fork resolution goes back; removing the temporary block must take the VTB
  // off the (now unapplied) fork block and out of the VBK payload index again (C12: generatePopData leaves all views as it found them)
  addAltHeader(w, 2, 1);
  mineVbk(w, 1); mineVbk(w, 2); mineVbk(w, 3);                      // VBK 2, 3, 4 (main chain)
  { PopData pd; pd.context = {w.vbkById[2], w.vbkById[3], w.vbkById[4]}; t.acceptBlock(altHash(2), pd); ValidationState s; verif_check(t.setState(altHash(2), s), 1); }
  uint8_t forkOn = (uint8_t)verif_choice(2, 3);
  VTB V = makeValidVTB(w, 2, forkOn, 1, 5);                         // containing block 5 forks off block 2 or 3 (shorter than the main chain), endorses VBK 2
  ValidationState st;
  verif_check(mp.submit<VTB>(V, true, st).isValid(), 2);
  uint64_t before = treesDigest();
  verif_check(vbkIndexExact(t), 3);
  PopData pd = mp.generatePopData();
  verif_check(treesDigest() == before, 4);
  verif_check(vbkIndexExact(t), 5);                                 // nothing of the temporary block is left in the VBK payload index
  verif_check(t.vbk().getBlockIndex(w.vbkById[5].getHash()) == nullptr, 6);   // the fork block came with the VTB and left with it
  verif_check(pd.vtbs.size() == 1 && pd.context.size() == 1, 7);
  addAltHeader(w, 3, 2);
  t.acceptBlock(altHash(3), pd);
  ValidationState s3;
  verif_check(t.setState(altHash(3), s3), 8);
  auto* f = t.vbk().getBlockIndex(w.vbkById[5].getHash());
  verif_check(f != nullptr && f->getPayloadIds<VTB>().size() == 1, 9);       // carried by a real block: exactly one copy
  verif_check(vbkIndexExact(t), 10);
  verif_cover(forkOn == 2 ? 1 : 2);
#elif defined(MODE_TIMELY)
  // timeliness seen by the mempool == timeliness seen by the tree: an ATV endorsing block E is accepted / offered by the pool on tip T
  // exactly when a next block carrying it would be valid (T.height + 1 <= E.height + settlement interval) (C19 / C12)
  for (uint8_t a = 2; a <= 4; a++) { addAltHeader(w, a, (uint8_t)(a - 1)); PopData none; t.acceptBlock(altHash(a), none); }
  uint8_t T = (uint8_t)verif_choice(2, 4);
  { ValidationState s; verif_check(t.setState(altHash(T), s), 1); }
  uint8_t E = (uint8_t)verif_choice(1, T);
  mineVbk(w, 1);                                                    // VBK 2
  ATV A = makeValidATV(w, E, 2, 1);                                 // in VBK 3
  bool timely = (w.height[T] + 1) <= (w.height[E] + (int)w.ap.getEndorsementSettlementInterval());
  ValidationState st;
  verif_check(mp.submit<VbkBlock>(w.vbkById[2], true, st).isAccepted(), 2);
  auto r = mp.submit<ATV>(A, true, st);
  verif_check(r.status != MemPool::FAILED_STATELESS, 3);
  verif_check(r.isValid() == timely, 4);                         // the pool's verdict is the tree's verdict
  PopData pd = mp.generatePopData();
  bool offered = false; for (auto& a : pd.atvs) offered = offered || a.getId() == A.getId();
  verif_check(offered == timely, 5);                                // an honest, timely endorsement is offered; an expired one is not
  // the tree's own verdict on a next block that carries the ATV directly
  addAltHeader(w, 5, T);
  { PopData direct; direct.context = {w.vbkById[2], w.vbkById[3]}; direct.atvs = {A}; t.acceptBlock(altHash(5), direct); }
  ValidationState s5;
  verif_check(t.setState(altHash(5), s5) == timely, 6);
  if (timely && w.height[T] + 1 == w.height[E] + (int)w.ap.getEndorsementSettlementInterval()) verif_cover(1);   // the last timely block
  if (!timely) verif_cover(2);
#elif defined(MODE_PAIR)
  // two honest ATVs of two miners endorse the same ALT block with the same fee inside the same VBK block (equal under every ranking
  // criterion of the relation's ordering): both are kept, offered, and end up as endorsements (C13 / C19)
  addAltHeader(w, 2, 1);
  { PopData none; t.acceptBlock(altHash(2), none); ValidationState s; verif_check(t.setState(altHash(2), s), 1); }
  mineVbk(w, 1);                                                    // VBK 2
  auto& A1 = *new ATV(); auto& A2 = *new ATV();
  makeValidATVPair(w, 2, 2, 1, 2, A1, A2);                          // both in VBK 3
  ValidationState st;
  verif_check(mp.submit<VbkBlock>(w.vbkById[2], true, st).isAccepted(), 2);
  bool firstA1 = verif_cbool();
  verif_check(mp.submit<ATV>(firstA1 ? A1 : A2, true, st).isValid(), 3);
  verif_check(mp.submit<ATV>(firstA1 ? A2 : A1, true, st).isValid(), 4);
  if (verif_cbool()) { verif_check(mp.submit<ATV>(A1, true, st).isValid(), 5); verif_cover(2); }      // a resubmission changes nothing
  checkViews(mp, 100);
  verif_check(mp.getMap<ATV>().size() == 2, 6);
  PopData pd = mp.generatePopData();
  verif_check(pd.atvs.size() == 2 && pd.atvs[0].getId() != pd.atvs[1].getId(), 7);                       // both offered, once each
  addAltHeader(w, 3, 2);
  t.acceptBlock(altHash(3), pd);
  ValidationState s3;
  verif_check(t.setState(altHash(3), s3), 8);
  verif_check(t.getBlockIndex(altHash(2))->getEndorsedBy().size() == 2, 9);                              // both miners endorsed the block
  mp.removeAll(pd);
  checkViews(mp, 200);
  verif_check(mp.getMap<ATV>().empty(), 10);                                                              // nothing of them lingers
  verif_cover(1);
#elif defined(MODE_STALE2)
  // the stale path reached NATURALLY: 1..2 ATVs are submitted (stateless + stateful checks) and connect to VBK block 3; then an ALT
  // block moves the VBK tip far beyond the old-blocks window without carrying them; removeAll / cleanUp / generatePopData must drop
  // them without touching freed memory (the engine checks every access), and they never reappear (C13)
  w.vp.mOldBlocksWindow = 1;
  addAltHeader(w, 2, 1);
  { PopData none; t.acceptBlock(altHash(2), none); ValidationState s; verif_check(t.setState(altHash(2), s), 1); }
  mineVbk(w, 1);                                                    // VBK 2
  auto& A1 = *new ATV(); auto& A2 = *new ATV();
  uint32_t natv = verif_choice(1, 2);
  if (natv == 2) makeValidATVPair(w, 2, 2, 1, 2, A1, A2); else A1 = makeValidATV(w, 2, 2, 1);   // in VBK 3
  bool withVtb = verif_cbool();
  auto& V = *new VTB();
  if (withVtb) V = makeValidVTB(w, 2, 3, 1, 7); else mineVbk(w, 3);  // VBK 4 (the containing block of a VTB, or a plain block)
  mineVbk(w, 4); mineVbk(w, 5);                                      // VBK 5, 6
  ValidationState st;
  verif_check(mp.submit<VbkBlock>(w.vbkById[2], true, st).isValid(), 2);
  verif_check(mp.submit<ATV>(A1, true, st).isValid(), 3);
  if (natv == 2) verif_check(mp.submit<ATV>(A2, true, st).isValid(), 4);
  if (withVtb) { verif_check(mp.submit<VTB>(V, true, st).isValid(), 10); verif_cover(3); }   // the stale relation of VBK 4 holds a VTB
  checkViews(mp, 100);
  PopData pd; for (int v = 2; v <= 6; v++) pd.context.push_back(w.vbkById[v]);
  addAltHeader(w, 3, 2);
  t.acceptBlock(altHash(3), pd);
  ValidationState s3;
  verif_check(t.setState(altHash(3), s3), 5);
  uint32_t how = verif_choice(0, 2);
  if (how == 0) mp.cleanUp(); else if (how == 1) mp.removeAll(pd); else { PopData g = mp.generatePopData(); addAltHeader(w, 4, 3); t.acceptBlock(altHash(4), g); ValidationState s4; verif_check(t.setState(altHash(4), s4), 6); }   // whatever is still offered is valid as-is
  checkViews(mp, 200);
  verif_check(mp.getMap<ATV>().empty(), 7);                         // stale payloads are forgotten
  verif_check(!mp.isKnown<ATV>(A1.getId(), true), 8);
  PopData again = mp.generatePopData();
  verif_check(again.atvs.empty(), 9);                               // and never reappear
  if (natv == 2) verif_cover(2); else verif_cover(1);
#elif defined(MODE_STALE)
  w.vp.mOldBlocksWindow = 1;
  mineVbk(w, 1); mineVbk(w, 2); mineVbk(w, 3); mineVbk(w, 4);     // VBK 2..5
  addAltHeader(w, 2, 1); addAltHeader(w, 3, 2);
  // reachable pool state built directly (what submit<ATV> leaves after a successful stateless + stateful check)
  uint32_t natv = verif_choice(1, 2);
  auto hdr = std::make_shared<VbkBlock>(w.vbkById[2]);
  auto& rel = mp.getOrPutVbkRelation(hdr);
  for (uint32_t i = 0; i < natv; i++) {
    auto atv = std::make_shared<ATV>(makeATV(w, 2, 2, 2, (uint8_t)(i + 1)));
    rel.atvs.insert(atv);
    mp.makePayloadConnected<ATV>(atv);
  }
  // the VBK tip of the ALT tree advances beyond the old-blocks window of VBK block 2
  PopData pd; for (int v = 2; v <= 5; v++) pd.context.push_back(w.vbkById[v]);
  t.acceptBlock(altHash(2), pd);
  ValidationState st;
  verif_check(t.setState(altHash(2), st), 1);
  mp.cleanUp();                                                    // engine obligation: no freed memory touched
  verif_check(mp.getMap<ATV>().empty(), 2);                        // stale payloads are forgotten
  verif_cover(1);
#elif defined(MODE_REJECT)
  // generatePopData meets a connected ATV whose endorsement is contextually invalid on the current tip (endorsed block on another
  // fork): the temporary block must leave no trace (payload index, trees), and the ATV is not offered.
  mineVbk(w, 1);                                                     // VBK 2
  addAltHeader(w, 2, 1); addAltHeader(w, 3, 1);                     // active 1-2, fork block 3
  PopData none;
  t.acceptBlock(altHash(2), none); t.acceptBlock(altHash(3), none);
  ValidationState st;
  verif_check(t.setState(altHash(2), st), 1);
  uint32_t endorsed = verif_choice(1, 3);                            // 1, 2: on the active chain (valid); 3: other fork (invalid here)
  auto hdr = std::make_shared<VbkBlock>(w.vbkById[2]);
  ValidationState s0;
  verif_check(mp.submit<VbkBlock>(w.vbkById[2], true, s0).isAccepted(), 2);
  auto& rel = mp.getOrPutVbkRelation(hdr);
  auto atv = std::make_shared<ATV>(makeATV(w, (uint8_t)endorsed, (uint8_t)endorsed, 2, 1));
  rel.atvs.insert(atv);
  mp.makePayloadConnected<ATV>(atv);
  uint64_t before = treesDigest();
  size_t idxBefore = t.getPayloadsIndex().getAll().size();
  PopData pd = mp.generatePopData();
  verif_check(treesDigest() == before, 3);                           // side-effect free
  verif_check(t.getPayloadsIndex().getAll().size() == idxBefore, 4); // the ALT payload index holds nothing of the temporary block
  verif_check(t.getPayloadsIndex().find(atv->getId().asVector()).empty(), 5);
  verif_check((pd.atvs.size() == 1) == (endorsed != 3), 6);          // offered iff statefully valid on the tip
  // whatever is returned is valid as-is for the next block
  addAltHeader(w, 4, 2);
  t.acceptBlock(altHash(4), pd);
  ValidationState s2;
  verif_check(t.setState(altHash(4), s2), 7);
  if (endorsed == 3) verif_cover(1); else verif_cover(2);
#elif defined(MODE_DUP)
  // the same VTB connected twice (a resubmission of a connected payload is not de-duplicated), then removeAll: nothing of it may remain
  mineVbk(w, 1); mineVbk(w, 2); mineBtc(w, 1);
  ValidationState s0;
  verif_check(mp.submit<VbkBlock>(w.vbkById[2], true, s0).isAccepted(), 1);
  verif_check(mp.submit<VbkBlock>(w.vbkById[3], true, s0).isAccepted(), 2);
  auto hdr = std::make_shared<VbkBlock>(w.vbkById[3]);
  auto& rel = mp.getOrPutVbkRelation(hdr);
  auto vtb = std::make_shared<VTB>(makeVTB(w, 2, 3, 2, 2, 1));
  uint32_t copies = verif_choice(1, 2);
  for (uint32_t i = 0; i < copies; i++) { rel.vtbs.push_back(vtb); mp.makePayloadConnected<VTB>(vtb); }
  PopData pop; pop.context = {w.vbkById[2], w.vbkById[3]}; pop.vtbs = {*vtb};
  mp.removeAll(pop);
  verif_check(mp.getMap<VTB>().count(vtb->getId()) == 0, 3);
  // relations and the per-type map describe the same set
  size_t inRel = 0;
  for (auto& kv : mp.relations_) for (auto& v : kv.second->vtbs) inRel += v->getId() == vtb->getId();
  verif_check(inRel == 0, 4);                                        // removed payloads never linger in the relations
  PopData again = mp.generatePopData();
  verif_check(again.vtbs.empty(), 5);                                // and never reappear
  if (copies == 2) verif_cover(1); else verif_cover(2);
#else
#error mode
#endif
}
