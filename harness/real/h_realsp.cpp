// F-REAL / SP-fork harness (C02, C01): two equal-work VBK branches X (2-3, first seen = best) and Y (2-4).  ALT block 2 (common
// prefix) delivers both branches; chain A (2-3-4) is active; chain B (2-5-6) carries a VTB whose containing VBK block is on X or on Y, optionally followed by a
// contextually invalid ATV.  Applying B can move the VBK best chain to Y; a failed setState(B) or a comparePopScore(A,B)
// that A does not lose must restore EVERY observable, including the VBK best chain (first-seen order on ties).
#include "common/real_env.hpp"
using namespace vr;
static RealWorld* W;
static uint64_t mixh(uint64_t h, uint64_t v) { h ^= v + 0x9e3779b97f4a7c15ull + (h << 6) + (h >> 2); return h * 0x100000001b3ull; }
static uint64_t digest(bool withSpBest = true) {
  AltBlockTree& t = *W->alt;
  uint64_t sum = 0;
  for (auto* b : t.getBlocks()) {
    uint64_t h = mixh(mixh(3, b->getHash()[0]), b->getStatus() & (BLOCK_ACTIVE | BLOCK_HAS_PAYLOADS));
    h = mixh(h, b->getEndorsedBy().size() * 16 + b->getContainingEndorsements().size());
    sum += h;
  }
  for (auto* b : t.vbk().getBlocks()) {
    uint64_t h = mixh(mixh(5, b->getHash().data()[23]), (b->getStatus() & (BLOCK_FAILED_MASK | (withSpBest ? BLOCK_ACTIVE : 0))));
    h = mixh(h, b->refCount() * 256 + b->getPayloadIds<VTB>().size() * 16 + b->getEndorsedBy().size());
    sum += h;
  }
  for (auto* b : t.btc().getBlocks()) { uint64_t h = mixh(7, b->getHash().data()[31]); for (auto r : b->getRefs()) h += mixh(11, (uint64_t)r); h = mixh(h, b->getBlockOfProofEndorsement().size()); sum += h; }
  if (withSpBest) sum = mixh(sum, t.vbk().getBestChain().tip()->getHash().data()[23]);      // VBK best chain
  sum = mixh(sum, t.btc().getBestChain().tip()->getHash().data()[31]);
  sum = mixh(sum, t.getBestChain().tip()->getHash()[0]);
  sum = mixh(sum, t.appliedBlockCount * 64 + (withSpBest ? t.vbk().appliedBlockCount : 0));
  return sum;
}
#ifdef REFS
// C01 variant: one BTC block is referenced by VTBs at two different VBK heights from two ALT forks; B was fully validated
// earlier, A is active, then B wins comparePopScore(A,B): A is unapplied underneath the still applied B.  Afterwards the BTC
// reference heights must be exactly those of chain B alone (what an instance that only ever saw B holds).
extern "C" __attribute__((noinline)) void h_realsp() {
  RealWorld& w = newRealWorld();
  W = &w;
  AltBlockTree& t = *w.alt;
  mineVbk(w, 1); mineVbk(w, 2); mineVbk(w, 3);                  // VBK 2,3,4 (heights 1,2,3)
  mineBtc(w, 1);                                                 // BTC 2
  addAltHeader(w, 2, 1); addAltHeader(w, 3, 2); addAltHeader(w, 4, 3); addAltHeader(w, 5, 2); addAltHeader(w, 6, 5);
  PopData p2; p2.context = {w.vbkById[2], w.vbkById[3], w.vbkById[4]};
  uint32_t hiA = verif_choice(3, 4), hiB = verif_choice(3, 4);   // containing VBK blocks of the two VTBs (heights 2 or 3)
  verif_assume(hiA != hiB);
  PopData a3, a4, b5, b6;
  a3.vtbs.push_back(makeVTB(w, 2, (uint8_t)hiA, 2, 2, 1));
  b5.vtbs.push_back(makeVTB(w, 2, (uint8_t)hiB, 2, 2, 2));
  b6.atvs.push_back(makeATV(w, 5, 5, 2, 1));                      // B's keystone block 5 is endorsed: B wins the POP comparison
  t.acceptBlock(altHash(2), p2); t.acceptBlock(altHash(3), a3); t.acceptBlock(altHash(4), a4); t.acceptBlock(altHash(5), b5); t.acceptBlock(altHash(6), b6);
  ValidationState s0, s1;
  verif_check(t.setState(altHash(6), s0), 1);                     // B validated on its own
  verif_check(t.setState(altHash(4), s1), 2);                     // A active
  int r = t.comparePopScore(altHash(4), altHash(6));
  verif_check(r < 0, 3);                                          // B (endorsed keystone) wins
  verif_check(t.getBestChain().tip()->getHash()[0] == 6, 4);
  auto* b2 = t.btc().getBlockIndex(w.btcById[2].getHash());
  verif_check(b2 != nullptr && b2->getRefs().size() == 1 && b2->getRefs()[0] == (int)hiB - 1, 5);   // exactly B's reference height remains
  ValidationState s2;
  verif_check(t.setState(altHash(4), s2), 6);
  auto* b2b = t.btc().getBlockIndex(w.btcById[2].getHash());
  verif_check(b2b != nullptr && b2b->getRefs().size() == 1 && b2b->getRefs()[0] == (int)hiA - 1, 7);
  if (hiA > hiB) verif_cover(1); else verif_cover(2);
}
#elif defined(UNEQUAL)
// C01 variant: X = 2-3-5 is heavier than Y = 2-4; a VTB endorsing Y's keystone block makes Y win POP fork resolution of VBK while
// chain B is applied; after leaving B the VBK best chain is determined by the chain alone (no tie) and must be X again, exactly
// as in an instance that only ever saw chain A.
extern "C" __attribute__((noinline)) void h_realsp() {
  RealWorld& w = newRealWorld();
  W = &w;
  AltBlockTree& t = *w.alt;
  mineVbk(w, 1); mineVbk(w, 2); mineVbk(w, 2); mineVbk(w, 3);   // VBK 2; X: 3, 5 (on 3); Y: 4
  bool longY = verif_cbool();                                    // Y gets a second block (6 on 4) and X a third (7 on 5): the VTB then sits in a MID-fork block of the non-active fork
  if (longY) { mineVbk(w, 4); mineVbk(w, 5); }
  const uint8_t xTip = longY ? 7 : 5, yTip = longY ? 6 : 4;
  mineBtc(w, 1);
  addAltHeader(w, 2, 1); addAltHeader(w, 3, 2); addAltHeader(w, 4, 3); addAltHeader(w, 5, 2); addAltHeader(w, 6, 5);
  bool xFirst = verif_cbool();
  PopData p2;
  if (xFirst) { p2.context = {w.vbkById[2], w.vbkById[3], w.vbkById[5]}; if (longY) p2.context.push_back(w.vbkById[7]); p2.context.push_back(w.vbkById[4]); if (longY) p2.context.push_back(w.vbkById[6]); }
  else { p2.context = {w.vbkById[2], w.vbkById[4]}; if (longY) p2.context.push_back(w.vbkById[6]); p2.context.push_back(w.vbkById[3]); p2.context.push_back(w.vbkById[5]); if (longY) p2.context.push_back(w.vbkById[7]); }
  PopData none;
  t.acceptBlock(altHash(2), p2); t.acceptBlock(altHash(3), none); t.acceptBlock(altHash(4), none);
  uint32_t where = verif_choice(5, 6);
  PopData b5, b6;
  bool flip = verif_cbool();                                     // the VTB (contained in Y's block 4) endorses Y's keystone block 4 (Y wins POP fork resolution) or the common
                                                                 // non-keystone block 2 (nothing changes: after validation the containing block is unapplied again while holding the VTB)
  (where == 5 ? b5 : b6).vtbs.push_back(makeVTB(w, (uint8_t)(flip ? 4 : 2), 4, 2, 2, 1));
  t.acceptBlock(altHash(5), b5); t.acceptBlock(altHash(6), b6);
  ValidationState s0;
  verif_check(t.setState(altHash(4), s0), 1);
  verif_check(t.vbk().getBestChain().tip()->getHash().data()[23] == xTip, 2);  // absent POP, the heavier branch X is best
  uint64_t d0 = digest();
  ValidationState s1;
  verif_check(t.setState(altHash(6), s1), 3);
  uint8_t nowTip = t.vbk().getBestChain().tip()->getHash().data()[23];
  verif_check(nowTip == xTip || nowTip == yTip, 7);                            // the VBK best chain always ends in a leaf of the winning fork, never in a mid-fork block
  if (nowTip == yTip) { verif_cover(1); if (longY) verif_cover(3); }           // the VTB really flipped VBK fork resolution to Y
  if (!flip) { verif_check(nowTip == xTip, 8); verif_check(t.vbk().getBlockIndex(w.vbkById[4].getHash())->getPayloadIds<VTB>().size() == 1, 9); verif_cover(4); }   // held by an unapplied block
  verif_check(vbkIndexExact(t), 10);
  ValidationState s2;
  verif_check(t.setState(altHash(4), s2), 4);
  verif_check(t.vbk().getBestChain().tip()->getHash().data()[23] == xTip, 5);  // back on A: the SP best chain depends only on the active chain
  verif_check(digest() == d0, 6);
  verif_check(vbkIndexExact(t), 11);                                           // the VTB left the unapplied block and the VBK payload index with the chain that carried it
  verif_cover(2);
}
#else
extern "C" __attribute__((noinline)) void h_realsp() {
  RealWorld& w = newRealWorld();
  W = &w;
  AltBlockTree& t = *w.alt;
  mineVbk(w, 1); mineVbk(w, 2); mineVbk(w, 2);      // VBK 2; X = 3 on 2; Y = 4 on 2 (equal work)
  mineBtc(w, 1);                                     // BTC 2
  // common ALT prefix block 2 delivers both VBK branches (so they stay alive across the switch); chain A = 3-4, chain B = 5-6
  addAltHeader(w, 2, 1);
  addAltHeader(w, 3, 2); addAltHeader(w, 4, 3);
  addAltHeader(w, 5, 2); addAltHeader(w, 6, 5);
  bool xFirst = verif_cbool();                       // which VBK branch was seen first
  PopData p2; p2.context = xFirst ? std::vector<VbkBlock>{w.vbkById[2], w.vbkById[3], w.vbkById[4]} : std::vector<VbkBlock>{w.vbkById[2], w.vbkById[4], w.vbkById[3]};
  PopData none;
  t.acceptBlock(altHash(2), p2); t.acceptBlock(altHash(3), none); t.acceptBlock(altHash(4), none);
  uint32_t cont = verif_choice(3, 4);                // VBK block containing the VTB: on X or on Y
  uint32_t where = verif_choice(5, 6);               // which B block carries the VTB
  bool badAtv = verif_cbool();
  PopData b5, b6;
  PopData& carrier = where == 5 ? b5 : b6;
  carrier.vtbs.push_back(makeVTB(w, 2, (uint8_t)cont, 2, 2, 1));
  if (badAtv) b6.atvs.push_back(makeATV(w, 3, 2, (uint8_t)cont, 1));   // endorses a block of chain A (and with foreign context info): invalid on B
  t.acceptBlock(altHash(5), b5); t.acceptBlock(altHash(6), b6);
  ValidationState s0;
  verif_check(t.setState(altHash(4), s0), 1);
  uint8_t vbkBest0 = t.vbk().getBestChain().tip()->getHash().data()[23];
  verif_check(vbkBest0 == (xFirst ? 3 : 4), 2);     // equal work: the earlier-seen branch is best
  uint64_t d0 = digest(), d0NoTie = digest(false);
  bool doCmp = verif_cbool();
  if (!doCmp) {
    ValidationState s1;
    bool ok = t.setState(altHash(6), s1);
    verif_check(ok == !badAtv, 3);
    if (!ok) { verif_check(digest() == d0, 4); verif_cover(1); }          // failed switch: exact rollback incl. the VBK best chain
    else {
      ValidationState s2;
      verif_check(t.setState(altHash(4), s2), 5);
      verif_check(digest(false) == d0NoTie, 6);                           // and back: same POP state; the VBK best chain itself is an exact work/score tie here, which the property excludes (first-seen order may differ)
      verif_cover(2);
    }
  } else {
    int r = t.comparePopScore(altHash(4), altHash(6));
    if (r >= 0) { verif_check(digest() == d0, 7); verif_cover(3); }       // tip kept: all views unchanged, VBK best chain restored
    else { verif_check(!badAtv, 8); verif_cover(4); }
  }
  if (cont != vbkBest0) verif_cover(5);                                   // the VTB sat on the non-best VBK branch
  verif_check(vbkIndexExact(t), 30);                                      // the VBK payload index holds exactly the VTBs of the existing VBK blocks, whatever was rolled back
  verif_observe(t.vbk().getBestChain().tip()->getHash().data()[23]);
}
#endif
