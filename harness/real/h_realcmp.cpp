// F-REAL / fork resolution verdict (C03): AltBlockTree::comparePopScore on two real ALT forks from the bootstrap block whose keystone
// blocks (height 2, keystone interval 2) are endorsed - or not - by ATVs published at symbolic VBK heights.  The sign of the verdict
// must be the sign of the protocol scoring: the earlier publication (in VBK blocks, table-weighted lateness) wins, no publication
// loses against any, equal scores tie.  The publication of an endorsement is the VBK height of its block of proof; an endorsement
// contained in the chain but endorsing the OTHER fork's keystone is rejected at activation, so only own endorsements occur.
#include "common/real_env.hpp"
using namespace vr;
#ifdef DBG
#include <cstdio>
#endif
static int64_t tbl(const std::vector<uint32_t>& t, int64_t rel) { return (rel < 0 || rel >= (int64_t)t.size()) ? 0 : (int64_t)t[(size_t)rel]; }
#ifdef KS2
// two keystones per fork (heights 2 and 4): reference scorer as in C03/h_score.cpp (appendix A), NONE = no publication
static const int64_t NONE = 0x7fffffff;
static int64_t refScore2(const std::vector<uint32_t>& table, int64_t fd, const int64_t* A, const int64_t* B) {
  bool outA = false, outB = false; int64_t sA = 0, sB = 0, prevA = NONE, prevB = NONE;
  for (int k = 0; k < 2; k++) {
    bool hasA = !outA, hasB = !outB;
    int64_t pA = hasA ? A[k] : NONE, pB = hasB ? B[k] : NONE;
    if (hasA && pA - prevA > fd) { outA = true; hasA = false; }
    prevA = pA;
    if (hasB && pB - prevB > fd) { outB = true; hasB = false; }
    prevB = pB;
    if (!hasA && !hasB) { if (outA && outB) break; continue; }
    if (!hasA) { sB += tbl(table, 0); outA = true; if (sB > sA) break; continue; }
    if (!hasB) { sA += tbl(table, 0); outB = true; if (sA > sB) break; continue; }
    int64_t e = pA < pB ? pA : pB;
    sA += tbl(table, pA - e); sB += tbl(table, pB - e);
    if (pA - pB > fd) outA = true;
    if (pB - pA > fd) outB = true;
  }
  return sA - sB;
}
extern "C" __attribute__((noinline)) void h_realcmp() {
  RealWorld& w = newRealWorld();
  AltBlockTree& t = *w.alt;
  const int NV = 11;
  for (int v = 1; v < NV; v++) mineVbk(w, (uint8_t)v);
  // fork A: 2..6 (heights 1..5, keystones 3 and 5), fork B: 7..11 (keystones 8 and 10)
  addAltHeader(w, 2, 1); for (uint8_t a = 3; a <= 6; a++) addAltHeader(w, a, (uint8_t)(a - 1));
  addAltHeader(w, 7, 1); for (uint8_t a = 8; a <= 11; a++) addAltHeader(w, a, (uint8_t)(a - 1));
  static const int hts[3] = {0, 2, 10};
  int h[4]; for (int k = 0; k < 4; k++) h[k] = hts[verif_choice(0, 2)];          // A1, A2, B1, B2
  PopData ctx; for (int v = 2; v <= NV; v++) ctx.context.push_back(w.vbkById[v]);
  PopData pd[12];
  pd[2] = ctx; pd[7] = ctx;
  if (h[0]) pd[4].atvs.push_back(makeATV(w, 3, 3, (uint8_t)(h[0] + 1), 1));
  if (h[1]) pd[6].atvs.push_back(makeATV(w, 5, 5, (uint8_t)(h[1] + 1), 2));
  if (h[2]) pd[9].atvs.push_back(makeATV(w, 8, 8, (uint8_t)(h[2] + 1), 3));
  if (h[3]) pd[11].atvs.push_back(makeATV(w, 10, 10, (uint8_t)(h[3] + 1), 4));
  for (uint8_t a = 2; a <= 11; a++) t.acceptBlock(altHash(a), pd[a]);
  ValidationState s;
  verif_check(t.setState(altHash(6), s), 1);
  int r = t.comparePopScore(altHash(6), altHash(11));
  // publication of keystone K = earliest block of proof among the endorsements of the blocks K .. K+interval+1 (the blocks whose header still
  // references K as a previous keystone): with interval 2 an endorsement of the second keystone (height 4) also publishes the first one (height 2)
  auto mn = [](int64_t x, int64_t y) { return x < y ? x : y; };
  int64_t a1 = h[0] ? h[0] : NONE, a2 = h[1] ? h[1] : NONE, b1 = h[2] ? h[2] : NONE, b2 = h[3] ? h[3] : NONE;
  int64_t A[2] = {mn(a1, a2), a2}, B[2] = {mn(b1, b2), b2};
  int64_t ref = refScore2(w.ap.getForkResolutionLookUpTable(), (int64_t)w.ap.getFinalityDelay(), A, B);
  int want = ref > 0 ? 1 : (ref < 0 ? -1 : 0), got = r > 0 ? 1 : (r < 0 ? -1 : 0);
#ifdef DBG
  fprintf(stderr, "h=%d %d %d %d r=%d ref=%lld tip=%d\n", h[0], h[1], h[2], h[3], r, (long long)ref, t.getBestChain().tip()->getHash()[0]);
#endif
  verif_check(got == want, 2);
  verif_check((t.getBestChain().tip()->getHash()[0] == 11) == (want < 0), 3);
  if (want > 0) verif_cover(1); if (want < 0) verif_cover(2); if (want == 0) verif_cover(3);
  if (want != 0 && ((h[0] && h[2] && h[0] != h[2]) && (h[1] && h[3] && h[1] != h[3]) && ((h[0] < h[2]) != (h[1] < h[3])))) verif_cover(4);   // the two keystones pull in opposite directions
  verif_observe((uint64_t)(int64_t)r);
}
#else
extern "C" __attribute__((noinline)) void h_realcmp() {
  RealWorld& w = newRealWorld();
  AltBlockTree& t = *w.alt;
  const int NV = 11;
  for (int v = 1; v < NV; v++) mineVbk(w, (uint8_t)v);              // VBK 2..11 (heights 1..10)
  // fork A: 2-3-4 (heights 1,2,3), fork B: 5-6-7; the keystones are 3 and 6
  addAltHeader(w, 2, 1); addAltHeader(w, 3, 2); addAltHeader(w, 4, 3);
  addAltHeader(w, 5, 1); addAltHeader(w, 6, 5); addAltHeader(w, 7, 6);
  static const int hts[5] = {0, 1, 2, 4, 10};                        // publication height of the endorsement (0 = not endorsed)
  int hA = hts[verif_choice(0, 4)], hB = hts[verif_choice(0, 4)];
  PopData ctx; for (int v = 2; v <= NV; v++) ctx.context.push_back(w.vbkById[v]);
  PopData a4, b7, none;
  if (hA) a4.atvs.push_back(makeATV(w, 3, 3, (uint8_t)(hA + 1), 1));  // VBK block id = height + 1
  if (hB) b7.atvs.push_back(makeATV(w, 6, 6, (uint8_t)(hB + 1), 2));
  t.acceptBlock(altHash(2), ctx); t.acceptBlock(altHash(3), none); t.acceptBlock(altHash(4), a4);
  t.acceptBlock(altHash(5), ctx); t.acceptBlock(altHash(6), none); t.acceptBlock(altHash(7), b7);
  ValidationState s;
  verif_check(t.setState(altHash(4), s), 1);
  int r = t.comparePopScore(altHash(4), altHash(7));
  // protocol scoring for one keystone per chain
  const auto& table = w.ap.getForkResolutionLookUpTable();
  int64_t sA = 0, sB = 0;
  if (hA && hB) { int64_t e = hA < hB ? hA : hB; sA = tbl(table, hA - e); sB = tbl(table, hB - e); }
  else if (hA) sA = tbl(table, 0);
  else if (hB) sB = tbl(table, 0);
  int want = sA > sB ? 1 : (sA < sB ? -1 : 0);
  int got = r > 0 ? 1 : (r < 0 ? -1 : 0);
  verif_check(got == want, 2);                                       // the verdict is the protocol's verdict
  verif_check((t.getBestChain().tip()->getHash()[0] == 7) == (want < 0), 3);   // and the better chain is active afterwards
  // asked the other way round (from the other tip) the answer is the opposite
  uint8_t tipNow = t.getBestChain().tip()->getHash()[0], other = tipNow == 7 ? 4 : 7;
  int r2 = t.comparePopScore(altHash(tipNow), altHash(other));
  verif_check(r2 >= 0, 4);                                           // the active chain never loses right after winning or keeping the tip
  if (want > 0) verif_cover(1); if (want < 0) verif_cover(2); if (want == 0 && hA && hB && hA != hB) verif_cover(3); if (want == 0 && !hA && !hB) verif_cover(4);
  verif_observe((uint64_t)(int64_t)r);
}
#endif
