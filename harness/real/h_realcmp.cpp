// F-REAL / fork resolution verdict (C03): AltBlockTree::comparePopScore on two real ALT forks from the bootstrap block whose keystone
// blocks (height 2, keystone interval 2) are endorsed - or not - by ATVs published at symbolic VBK heights.  The sign of the verdict
// must be the sign of the protocol scoring: the earlier publication (in VBK blocks, table-weighted lateness) wins, no publication
// loses against any, equal scores tie.  The publication of an endorsement is the VBK height of its block of proof; an endorsement
// contained in the chain but endorsing the OTHER fork's keystone is rejected at activation, so only own endorsements occur.
#include "common/real_env.hpp"
using namespace vr;
static int64_t tbl(const std::vector<uint32_t>& t, int64_t rel) { return (rel < 0 || rel >= (int64_t)t.size()) ? 0 : (int64_t)t[(size_t)rel]; }
extern "C" __attribute__((noinline)) void h_realcmp() {
  RealWorld& w = newRealWorld();
  AltBlockTree& t = *w.alt;
  const int NV = 11;
  for (int v = 1; v < NV; v++) mineVbk(w, (uint8_t)v);              // VBK 2..11 (heights 1..10)
  // fork A: 2-3-4 (heights 1,2,3), fork B: 5-6-7; the keystones are 3 and 6
  addAltHeader(w, 2, 1); addAltHeader(w, 3, 2); addAltHeader(w, 4, 3);
  addAltHeader(w, 5, 1); addAltHeader(w, 6, 5); addAltHeader(w, 7, 6);
  static const int hts[5] = {0, 1, 2, 4, 10};                        // publication height of the endorsement (0 = not endorsed)
  int hA = hts[verif_choice(0, 4)], hB = hts[verif_choice(0, 4)];
  PopData ctx; for (int v = 2; v <= NV; v++) ctx.context.push_back(w.vbkById[v]);
  PopData a4, b7, none;
  if (hA) a4.atvs.push_back(makeATV(w, 3, 3, (uint8_t)(hA + 1), 1));  // VBK block id = height + 1
  if (hB) b7.atvs.push_back(makeATV(w, 6, 6, (uint8_t)(hB + 1), 2));
  t.acceptBlock(altHash(2), ctx); t.acceptBlock(altHash(3), none); t.acceptBlock(altHash(4), a4);
  t.acceptBlock(altHash(5), ctx); t.acceptBlock(altHash(6), none); t.acceptBlock(altHash(7), b7);
  ValidationState s;
  verif_check(t.setState(altHash(4), s), 1);
  int r = t.comparePopScore(altHash(4), altHash(7));
  // protocol scoring for one keystone per chain
  const auto& table = w.ap.getForkResolutionLookUpTable();
  int64_t sA = 0, sB = 0;
  if (hA && hB) { int64_t e = hA < hB ? hA : hB; sA = tbl(table, hA - e); sB = tbl(table, hB - e); }
  else if (hA) sA = tbl(table, 0);
  else if (hB) sB = tbl(table, 0);
  int want = sA > sB ? 1 : (sA < sB ? -1 : 0);
  int got = r > 0 ? 1 : (r < 0 ? -1 : 0);
  verif_check(got == want, 2);                                       // the verdict is the protocol's verdict
  verif_check((t.getBestChain().tip()->getHash()[0] == 7) == (want < 0), 3);   // and the better chain is active afterwards
  // asked the other way round (from the other tip) the answer is the opposite
  uint8_t tipNow = t.getBestChain().tip()->getHash()[0], other = tipNow == 7 ? 4 : 7;
  int r2 = t.comparePopScore(altHash(tipNow), altHash(other));
  verif_check(r2 >= 0, 4);                                           // the active chain never loses right after winning or keeping the tip
  if (want > 0) verif_cover(1); if (want < 0) verif_cover(2); if (want == 0 && hA && hB && hA != hB) verif_cover(3); if (want == 0 && !hA && !hB) verif_cover(4);
  verif_observe((uint64_t)(int64_t)r);
}
