// F-REAL / VTB harness: real AltBlockTree + VbkBlockTree + BTC tree with VTBs.  ALT chain 1-2-3 and a fork block 4 on the
// bootstrap block; linear VBK chain 1..NV and BTC chain 1..NB on the miner side.  Every ALT block carries VBK context
// [lo..hi] and optionally one VTB with symbolic endorsed / containing VBK block, BTC block of proof and BTC context start.
// Verdicts, the BTC block set and the exact reference-height multisets are compared with an independent integer specification.
#include "common/real_env.hpp"
using namespace vr;
#ifndef NVTB
#define NVTB 1
#endif
static const int NA = 4, NV = 3, NB = 3;
struct Plan { int lo = 0, hi = 0; int e = 0, c = 0, bop = 0, ctxLo = 0, salt = 0; };
static Plan plan[NA + 2];
static RealWorld* W;
struct Sim { bool vbk[NV + 2]; bool btc[NB + 2]; int nref[NB + 2]; int refs[NB + 2][8]; };
static void simInit(Sim& s) { for (int i = 0; i <= NV + 1; i++) s.vbk[i] = false; for (int i = 0; i <= NB + 1; i++) { s.btc[i] = false; s.nref[i] = 0; } s.vbk[1] = true; s.btc[1] = true; s.nref[1] = 1; s.refs[1][0] = 0; }
static bool simDup(int b) {
  for (int a = W->parent[b]; a; a = W->parent[a]) {
    for (int v = plan[b].lo; v && v <= plan[b].hi; v++) if (plan[a].lo && v >= plan[a].lo && v <= plan[a].hi) return true;
    if (plan[b].c && plan[a].c && plan[a].e == plan[b].e && plan[a].c == plan[b].c && plan[a].bop == plan[b].bop && plan[a].ctxLo == plan[b].ctxLo && plan[a].salt == plan[b].salt) return true;
  }
  return false;
}
static bool simApply(Sim& s, int b) {
  Sim saved = s;
  bool ok = true;
  for (int v = plan[b].lo; ok && v && v <= plan[b].hi; v++) { if (!s.vbk[v]) { if (!s.vbk[v - 1]) ok = false; else s.vbk[v] = true; } }
  if (ok && plan[b].c) {
    const Plan& p = plan[b];
    int ch = p.c - 1;                                         // VBK height of the containing block
    if (!s.vbk[p.c]) ok = false;                               // containing VBK block unknown
    int first = (p.ctxLo && p.ctxLo < p.bop) ? p.ctxLo : p.bop;
    int conn = first - 1;                                      // BTC block the context must connect to
    if (ok) {
      if (!s.btc[conn]) ok = false;                            // context does not connect
      else { bool early = true; for (int k = 0; k < s.nref[conn]; k++) if (s.refs[conn][k] <= ch) early = false; if (early) ok = false; }   // referenced too early
    }
    for (int x = first; ok && x <= p.bop; x++) { if (!s.btc[x]) { if (!s.btc[x - 1]) ok = false; else s.btc[x] = true; } if (ok) s.refs[x][s.nref[x]++] = ch; }
    if (ok && !(s.vbk[p.e] && p.e <= p.c)) ok = false;         // endorsed VBK block unknown / not an ancestor of the containing block
  }
  if (!ok) s = saved;
  return ok;
}
static int simFirstInvalid(int x, Sim* out = nullptr) {
  int path[NA + 2], n = 0;
  for (int i = x; i; i = W->parent[i]) path[n++] = i;
  Sim s; simInit(s);
  int bad = 0;
  for (int k = n - 2; k >= 0 && !bad; k--) { if (simDup(path[k]) || !simApply(s, path[k])) bad = path[k]; }
  if (out) *out = s;
  return bad;
}
static void checkSp(int base) {
  AltBlockTree& t = *W->alt;
  Sim s;
  int bad = simFirstInvalid(t.getBestChain().tip()->getHash()[0], &s);
  verif_check(bad == 0, base);
  for (int v = 1; v <= NV; v++) verif_check((t.vbk().getBlockIndex(W->vbkById[v].getHash()) != nullptr) == s.vbk[v], base + 1);
  for (int x = 1; x <= NB; x++) {
    auto* bi = t.btc().getBlockIndex(W->btcById[x].getHash());
    verif_check((bi != nullptr) == s.btc[x], base + 2);                       // BTC block exists exactly while referenced by the active chain
    if (!bi) continue;
    verif_check((int)bi->getRefs().size() == s.nref[x], base + 3);
    // same multiset of reference heights
    for (int h = 0; h <= NV; h++) { int a = 0, b = 0; for (auto r : bi->getRefs()) a += r == h; for (int k = 0; k < s.nref[x]; k++) b += s.refs[x][k] == h; verif_check(a == b, base + 4); }
  }
  size_t active = 0;
  for (auto* b : t.getBlocks()) { bool on = t.getBestChain().contains(b); verif_check(b->hasFlags(BLOCK_ACTIVE) == on, base + 5); active += on; }
  verif_check(t.appliedBlockCount == active, base + 6);
  verif_check(vbkIndexExact(t), base + 7);                            // the VBK payload index holds exactly the VTBs of the existing VBK blocks
}
extern "C" __attribute__((noinline)) void h_realvtb() {
  RealWorld& w = newRealWorld();
  W = &w;
  AltBlockTree& t = *w.alt;
  for (int v = 1; v < NV; v++) mineVbk(w, (uint8_t)v);
  for (int x = 1; x < NB; x++) mineBtc(w, (uint8_t)x);
  addAltHeader(w, 2, 1); addAltHeader(w, 3, 2); addAltHeader(w, 4, 1);
  int vtbs = 0;
  for (int b = 2; b <= NA; b++) {
#ifdef SIMPLECTX
    if (verif_cbool()) { plan[b].hi = NV; plan[b].lo = 2; }          // the whole VBK context or none
#else
    int hi = (int)verif_choice(0, NV);
    if (hi >= 2) { plan[b].hi = hi; plan[b].lo = (int)verif_choice(2, hi); }
#endif
    if (vtbs < NVTB && verif_cbool()) {
      vtbs++;
      plan[b].e = (int)verif_choice(1, NV); plan[b].c = (int)verif_choice(2, NV);
      plan[b].bop = (int)verif_choice(2, NB); plan[b].ctxLo = (int)verif_choice(2, plan[b].bop);
      plan[b].salt = vtbs;
    }
  }
  for (int b = NA; b >= 2; b--) {
    PopData pd;
    for (int v = plan[b].lo; v && v <= plan[b].hi; v++) pd.context.push_back(w.vbkById[v]);
    if (plan[b].c) pd.vtbs.push_back(makeVTB(w, (uint8_t)plan[b].e, (uint8_t)plan[b].c, (uint8_t)plan[b].bop, (uint8_t)plan[b].ctxLo, (uint8_t)plan[b].salt));
    t.acceptBlock(altHash((uint8_t)b), pd);
  }
  uint8_t T0 = (uint8_t)verif_choice(2, NA);
  ValidationState s1;
  auto* t0 = t.getBlockIndex(altHash(T0));
  bool ok0 = t.setState(*t0, s1);
  verif_check(ok0 == (simFirstInvalid(T0) == 0), 1);     // activated iff every payload (VBK context, VTB with its BTC context) is contextually valid on root..T0
  if (ok0) verif_cover(1); else verif_cover(2);
  checkSp(100);
  uint8_t X = (uint8_t)verif_choice(2, NA);
  auto* xi = t.getBlockIndex(altHash(X));
  ValidationState s2;
  bool ok1 = t.setState(*xi, s2);
  verif_check(ok1 == (simFirstInvalid(X) == 0), 2);
  checkSp(200);
  if (ok1 && ok0 && X != T0) verif_cover(3);
  if (ok0) { ValidationState s3; verif_check(t.setState(*t0, s3), 3); checkSp(300); }   // back: same SP state as the specification predicts for T0
  verif_observe(t.btc().getBlocks().size());
  verif_observe(t.vbk().getBlocks().size());
}
