import os, importlib.util as _ilu
_sp = _ilu.spec_from_file_location('c02spec', os.path.join(os.path.dirname(os.path.abspath(__file__)), '..', 'C02', 'spec.py'))
_c02 = _ilu.module_from_spec(_sp); _sp.loader.exec_module(_c02)
import copy
h = copy.deepcopy(_c02.HARNESSES[0])
h['obligations'] = ['round trip: after setState(T), any further setState/comparePopScore and re-activation, setState(T) reproduces the digest recorded at T (SP blocks, reference counts, endorsement lists, applied set; SP best chain when it is not a work tie)',
                    'every failed command group / block / switch is undone exactly (digest equality on failure paths): Execute/UnExecute of AddBlock and AddEndorsement are exact inverses',
                    'SP blocks exist exactly while referenced']
_rp = _ilu.spec_from_file_location('realspec', os.path.join(os.path.dirname(os.path.abspath(__file__)), '..', 'real', 'spec.py'))
_real = _ilu.module_from_spec(_rp); _rp.loader.exec_module(_real)
HARNESSES = [h] + copy.deepcopy([x for x in _real.HARNESSES if x['name'] == 'h_realvtb'] + _real.SP_HARNESSES + [x for x in _real.CTX_HARNESSES if x['name'] == 'h_realrefs'])
EXPLANATION = _c02.EXPLANATION + ' C01 is decided through the round-trip and rollback digest obligations of this harness.'
ASSUMPTIONS = _real.ASSUMPTIONS + _c02.ASSUMPTIONS + ['history independence for histories longer than the explored ones rests on the exact-inverse obligations (an argument, not a solver result)', 'AddVTB, payouts and the real ALT/VBK payload plumbing are outside']
