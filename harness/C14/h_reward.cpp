// C14 H-REWARD: the real DefaultPopRewardsCalculator kernels (getRoundForBlockNumber, calculateBlockReward,
// calculateMinerReward, getScoreMultiplierFromRelativeBlock, PopRewardsBigDecimal ops on ArithUint256) against an exact
// fixed-point (10^8) reference in unsigned __int128.  Height / relative block are symbolic; score and difficulty are
// case-split over a grid (256-bit long division forks on every quotient bit, so they are made concrete per path).
#include <veriblock/pop/alt-util.hpp>
#include <veriblock/pop/blockchain/alt_block_tree.hpp>
#include <veriblock/pop/rewards/default_poprewards_calculator.hpp>
using namespace altintegration;
typedef unsigned __int128 u128;
#ifndef HMAXH
#define HMAXH 65535
#endif
static const u128 D = 100000000;
struct AP : AltChainParams {
  int64_t getIdentifier() const noexcept override { return 1; }
  AltBlock getBootstrapBlock() const noexcept override { return AltBlock(); }
  std::vector<uint8_t> getHash(const std::vector<uint8_t>& b) const noexcept override { return b; }
  bool checkBlockHeader(const std::vector<uint8_t>&, const std::vector<uint8_t>&, ValidationState&) const noexcept override { return true; }
};
static u128 fx(double d) { return (u128)(uint64_t)(d * 100000000.0); }
static u128 fmul(u128 a, u128 b) { return a * b / D; }
static u128 fdiv(u128 a, u128 b) { return a * D / b; }
static bool eq(const PopRewardsBigDecimal& x, u128 v) {
  uint8_t d = 0;
  for (int i = 0; i < 32; i++) d |= (uint8_t)(x.value.data()[i] ^ (i < 16 ? (uint8_t)(v >> (8 * i)) : 0));
  return d == 0;
}
extern "C" __attribute__((noinline)) void h_reward() {
  auto& p = *new AP();
  // a fake tree: only getParams() is used by these kernels; every pointer-sized slot refers to the parameter object
  size_t n = sizeof(AltBlockTree) / sizeof(void*);
  auto** raw = new const void*[n];
  for (size_t i = 0; i < n; i++) raw[i] = &p;
  auto& calc = *new DefaultPopRewardsCalculator(*(AltBlockTree*)raw);
  const PopPayoutsParams& pp = p.getPayoutParams();
  uint32_t ki = p.getKeystoneInterval();
  // ---- round for block number, all heights
  uint32_t height = (uint32_t)(nondet_u16() & HMAXH) + 1;   // structurally narrow (HMAXH is a bit mask)
  uint32_t round = calc.getRoundForBlockNumber(height);
  uint32_t expRound = (height % ki == 0) ? pp.keystoneRound() : (pp.payoutRounds() <= 1 ? 0 : (height % ki) % (pp.payoutRounds() - 1));
  verif_check(round == expRound, 1);
  expRound = (uint32_t)__verif_concretize(expRound);            // case split: the reference below then runs on concrete numbers
  verif_check(round < pp.roundRatios().size(), 2);
  // ---- block reward on a grid of score / difficulty (fixed-point 10^8)
  uint32_t si = verif_choice(0, SGRID), di = verif_choice(0, DGRID);
  u128 score = (u128)si * 25000000 + (si ? 1 : 0);     // 0, 0.25000001, 0.50000001, ... (non-round values)
  u128 diff = (u128)di * 50000000 + 3;                 // 0.00000003, 0.50000003, 1.00000003, ...
  PopRewardsBigDecimal bs, bd;
  bs.value = ArithUint256((uint64_t)score); bd.value = ArithUint256((uint64_t)diff);
  PopRewardsBigDecimal got = calc.calculateBlockReward(height, bs, bd);
  u128 s = score, d = diff;
  bool firstRoundAfterKs = __verif_concretize(pp.payoutRounds() == 0 ? 1 : ((height % ki) / pp.payoutRounds() == 0)) != 0;
  if (pp.useFlatScoreRound() && expRound == pp.flatScoreRound() && firstRoundAfterKs) { s = D; d = D; }
  u128 expReward;
  if (s == 0) expReward = 0;
  else {
    if (d < D) d = D;
    u128 s2d = fdiv(s, d);
    u128 ratio = fx(pp.roundRatios()[expRound]);
    u128 slope = D;
    u128 start = fx(1.0), slopeN = fx(0.2), slopeK = fx(0.21325), thrN = fx(2.0), thrK = fx(3.0);
    if (s2d > start) {
      u128 thr = expRound == pp.keystoneRound() ? thrK : thrN;
      if (s2d > thr) s2d = thr;
      u128 dec = fmul(expRound == pp.keystoneRound() ? slopeK : slopeN, s2d - start);
      if (dec > D) dec = D;
      slope = D - dec;
      verif_cover(2);
    }
    expReward = fmul(fmul(slope, s2d), ratio);
  }
  verif_check(eq(got, expReward), 3);                    // block reward == specification evaluated in exact fixed point
  // cap: the reward never exceeds threshold * roundRatio
  verif_check(expReward <= fmul(fx(3.0), fx(3.0)), 4);
  // ---- miner reward: weight by relative VBK publication height
  uint32_t rel = verif_range(0, 60);
  const auto& table = pp.relativeScoreLookupTable();
  u128 w = 0;
  if (rel < table.size()) w = fx(table[rel]);
  if (s != 0 || true) {
    uint32_t ti = verif_choice(1, 4);
    u128 total = (u128)ti * 75000000 + 7;
    PopRewardsBigDecimal bt; bt.value = ArithUint256((uint64_t)total);
    PopRewardsBigDecimal mr = calc.calculateMinerReward(rel, bt, got);
    u128 expMiner = fdiv(fmul(expReward, w), total);
    verif_check(eq(mr, expMiner), 5);
    if (rel >= table.size()) verif_check(eq(mr, 0), 6);   // publications beyond the table earn nothing
  }
  verif_cover(1);
  if (expReward == 0) verif_cover(3);
}
