import os, sys
sys.path.insert(0, os.path.join(os.path.dirname(os.path.abspath(__file__)), '..', 'common'))
import srcsets
SRCS = srcsets.SERDE + ['src/pop/rewards/default_poprewards_calculator.cpp', 'src/pop/blockchain/alt_chain_params.cpp'] if os.path.exists('/repo/src/pop/blockchain/alt_chain_params.cpp') else srcsets.SERDE + ['src/pop/rewards/default_poprewards_calculator.cpp']
HARNESSES = [
    {'name': 'h_reward', 'src': 'C14/h_reward.cpp', 'entry': 'h_reward', 'repo_srcs': SRCS, 'covers': [1, 2, 3], 'jobs': 16,
     'obligations': ['getRoundForBlockNumber == specification for every height in the bound (symbolic)',
                     'calculateBlockReward == exact fixed-point (10^8) evaluation of the specification (flat round, minimum difficulty, slope start, threshold cap, keystone round, round ratio) for all heights and a grid of scores/difficulties',
                     'calculateMinerReward == blockReward * tableWeight(relative VBK height) / totalScore in exact fixed point; zero beyond the table; block reward capped'],
     'rungs': {'quick': [{'defines': ['SGRID=5', 'DGRID=3', 'HMAXH=4095'], 'bound': 'height 1..4096 (symbolic); score in {0, 0.25..1.25} (6 values), difficulty in {0..1.5} (4 values), relative height 0..60 (symbolic), total score 4 values; default payout parameters', 'timeout': 280}],
               'thorough': [{'defines': ['SGRID=16', 'DGRID=8', 'HMAXH=65535'], 'bound': 'height 1..65536, score 17 values up to 4.0, difficulty 9 values up to 4.0, otherwise as quick', 'timeout': 3000}]}},
]
import importlib.util as _ilu
_rp = _ilu.spec_from_file_location('realspec', os.path.join(os.path.dirname(os.path.abspath(__file__)), '..', 'real', 'spec.py'))
_real = _ilu.module_from_spec(_rp); _rp.loader.exec_module(_real)
HARNESSES += _real.PAYOUT_HARNESSES
EXPLANATION = 'Reward kernels of the real calculator run with symbolic height/relative height; score and difficulty are case-split because 256-bit long division forks per quotient bit.'
ASSUMPTIONS = ['score/difficulty on a grid, not all values (division kernels need a bit-precise engine with path merging, e.g. CBMC over translated IR, which was not built in this session)',
               'getPopPayout endorsement selection on the real ALT tree (which endorsements count, difficulty averaging, summation per payout info) is decided on the scenario space of h_payout only', 'default PopPayoutsParams only', 'the tree handed to the calculator is a partial object exposing only getParams()']
