import os, sys
sys.path.insert(0, os.path.join(os.path.dirname(os.path.abspath(__file__)), '..', 'common'))
import srcsets
SRCS = srcsets.SERDE + ['src/pop/stateless_validation.cpp']


def H(name, macro, obl, q, t, covers=(1,), jobs=8):
    return {'name': name, 'src': 'C05/h_stateless.cpp', 'entry': 'h_stateless', 'repo_srcs': SRCS, 'defines': [macro], 'covers': list(covers), 'jobs': jobs,
            'obligations': obl, 'rungs': {'quick': [q], 'thorough': [t, q]}}


HARNESSES = [
    H('h_embed', 'MODE_EMBED', ['checkBitcoinTransactionForPoPData accepts (contiguous rule) iff the 80 publication bytes occur contiguously in the BTC transaction'],
      {'defines': ['TXLEN=81'], 'bound': 'BTC tx of 81 symbolic bytes (no split magic byte), 65 symbolic VBK header bytes, concrete miner address', 'timeout': 280, 'jobs': 16},
      {'defines': ['TXLEN=82'], 'bound': 'BTC tx of 82 symbolic bytes', 'timeout': 3000, 'jobs': 16}, covers=(1, 2), jobs=16),
    H('h_honest', 'MODE_HONEST', ['every honest contiguous embedding (0..2 arbitrary bytes before and after) is accepted'],
      {'bound': 'prefix/suffix of 0..2 symbolic bytes, symbolic header', 'timeout': 200}, {'bound': 'prefix/suffix of 0..2 symbolic bytes', 'timeout': 600}),
    H('h_pow', 'MODE_POW', ['checkProofOfWork(BtcBlock) == 256-bit reference: target from compact bits (sign/overflow/zero/pow-limit rules) and hash <= target, for ALL bits and ALL hashes'],
      {'bound': 'all 2^32 bits values (case split on the exponent byte) x all 256-bit hashes', 'timeout': 280, 'jobs': 16}, {'bound': 'all bits x all hashes', 'timeout': 1500, 'jobs': 16}, covers=(1, 2), jobs=16),
    H('h_ctx', 'MODE_CTX', ['checkBtcBlocks valid iff every context header meets its PoW and each header references the hash of its predecessor'],
      {'defines': ['NBLK=3'], 'bound': '1..3 context headers, two difficulties, 2 symbolic hash bytes each, symbolic link breaks', 'timeout': 250},
      {'defines': ['NBLK=4'], 'bound': '1..4 context headers', 'timeout': 1500, 'jobs': 16}, covers=(1, 2, 3)),
    H('h_vbkpow', 'MODE_VBKPOW', ['checkProofOfWork(VbkBlock) == reference: difficulty decoded from compact form (sign / overflow / zero rules), at least the network minimum (regtest / testnet / mainnet), target = floor((2^192-1)/difficulty), 192-bit hash <= target, for ALL hashes'],
      {'bound': '3 networks x 48 difficulties (exponent 1..8 x 6 mantissas incl. zero, the minima and a negative one) x all 192-bit hashes', 'timeout': 250, 'jobs': 16}, {'bound': 'as quick', 'timeout': 600, 'jobs': 16}, covers=(1, 2), jobs=16),
    H('h_vbkplaus', 'MODE_VBKPLAUS', ['checkVbkBlockPlausibility == the documented window: height at or above the progpow fork height and inside the supported epochs; on networks with a progpow start time the timestamp lies in [max(start, start + 30s*(h-fork)*10/12 - 5 days), start + 30s*(h-fork)*12/10 + 5 days]'],
      {'bound': '3 networks, 41 heights from fork-16 to fork+71064 (case split), all 2^32 timestamps (symbolic)', 'timeout': 250, 'jobs': 16}, {'bound': 'as quick', 'timeout': 600, 'jobs': 16}, covers=(1, 2, 3), jobs=16),
    dict(H('h_vbkepoch', 'MODE_VBKEPOCH', ['a VBK header that passes checkVbkBlockPlausibility lies in an epoch the proof-of-work hash supports: the real ethash_get_cachesize (first step of the hash; asserts epoch < 4096) does not abort on its height'],
      {'bound': '3 networks, heights at both ends of epochs 0, 1, 4095, 4096 and at 4097', 'timeout': 200}, {'bound': 'as quick', 'timeout': 400}, covers=(1, 2), jobs=4), repo_srcs=SRCS + ['src/pop/crypto/progpow/libethash/internal.cpp', 'src/pop/crypto/progpow/libethash/cache_sizes.cpp', 'src/pop/crypto/progpow/libethash/dag_sizes.cpp']),
    H('h_vbkctx', 'MODE_VBKCTX', ['checkVbkBlocks valid iff every header meets its PoW, heights increase by exactly one and each header carries the last 12 bytes of its predecessor\'s hash'],
      {'defines': ['NBLK=3'], 'bound': '3 networks, 1..3 headers, two difficulties, 2 symbolic hash bytes each, link / height breaks', 'timeout': 250}, {'defines': ['NBLK=4'], 'bound': '1..4 headers', 'timeout': 900, 'jobs': 16}, covers=(1, 2, 3)),
]
def HC(name, macro, what, nl_q, nl_t, tq, tt):
    return {'name': name, 'src': 'C05/h_compose.cpp', 'entry': 'h_compose', 'repo_srcs': SRCS, 'defines': [macro], 'covers': [1, 2, 3, 4], 'jobs': 16, 'override': True,
            'obligations': [what + ' returns valid <=> every fact it stands for holds: magic byte of the configured network (regtest/testnet/mainnet), structural limits, '
                            'signature verified over the transaction\'s own hash/key, sender address derived from that key, Merkle path proves the transaction id against the Merkle root of the carried header '
                            '(independent fold; node hash = uninterpreted collision-free function), ' + ('publication data names this altchain and the endorsed header is authenticated against the top-level root of the carried context info' if macro == 'MODE_ATV' else 'the BTC transaction embeds the 80 publication bytes, BTC context headers are contiguous and meet their PoW'),
                            'the memoised `checked` flag is set exactly by a successful full check; a repeated check gives the same verdict'],
            'rungs': {'quick': [{'defines': ['NLAYERS=%d' % nl_q, 'HB=8'], 'bound': 'Merkle paths of 0..%d layers; every 256-bit hash value (ids, layers, roots, node hashes) has 8 symbolic bytes and 24 zero bytes; 3-bit symbolic index, symbolic tree selector, symbolic subject/root/transaction ids; crypto leaves (SHA-256 node hash, tx ids, secp256k1 verify, address derivation, altchain header check) replaced by symbolic oracles at link level' % nl_q, 'timeout': tq}],
                      'thorough': [{'defines': ['NLAYERS=%d' % nl_t, 'HB=16'], 'bound': 'Merkle paths of 0..%d layers, 16 symbolic bytes per hash value' % nl_t, 'timeout': tt}]}}


_hk = HC('h_sigkey', 'MODE_ATV', 'checkATV with the REAL secp256k1::publicKeyFromVbk on malformed public keys (wrong length / format byte / empty) whose address derivation verdict is arbitrary:', 1, 1, 200, 400)
_hk['caught_throws'] = True; _hk['defines'] = ['MODE_ATV', 'REAL_KEYPARSE']; _hk['covers'] = [3, 10, 11, 12, 13, 14]; _hk['repo_srcs'] = SRCS + ['src/pop/crypto/secp256k1.cpp']
_hk['obligations'] = ['checkATV on an ATV whose public key is malformed (8, 33, 65, 88 or 0 bytes with a wrong format byte) returns an INVALID state whatever the other facts are - it never throws past the API although the sender address may have been crafted to derive from that key.  (The engine does not interpret catch handlers: every distinct throw site it reaches is replayed natively on the solver\'s model; a throw that escapes the native checkATV is the violation, one that the code under test catches is accepted)']
HARNESSES += [_hk]
HARNESSES += [
    HC('h_checkatv', 'MODE_ATV', 'checkATV (real, including checkVbkTx, checkPublicationData, checkSignature, checkMerklePath, VbkMerklePath::calculateMerkleRoot)', 3, 4, 280, 1500),
    HC('h_checkvtb', 'MODE_VTB', 'checkVTB (real, including checkVbkPopTx, checkBitcoinTransactionForPoPData, checkBtcBlocks, checkSignature, both Merkle path types)', 2, 3, 280, 1500),
]
import importlib.util as _ilu
_sp = _ilu.spec_from_file_location('c16spec', os.path.join(os.path.dirname(os.path.abspath(__file__)), '..', 'C16', 'spec.py'))
_c16 = _ilu.module_from_spec(_sp); _sp.loader.exec_module(_c16)
HARNESSES += _c16.HARNESSES
_sp6 = _ilu.spec_from_file_location('c06spec', os.path.join(os.path.dirname(os.path.abspath(__file__)), '..', 'C06', 'spec.py'))
_c06 = _ilu.module_from_spec(_sp6); _sp6.loader.exec_module(_c06)
HARNESSES += [h for h in _c06.HARNESSES if h['name'] in ('h_split_short', 'h_split')]   # soundness side: a transaction shorter than the payload never 'contains' it (all byte strings incl. split descriptors)   # PopData limits / duplicate ids / verdict conjunction on the sliced checkPopData
EXPLANATION = 'Stateless validation kernels are executed on symbolic transactions / headers and compared with independent specifications.'
ASSUMPTIONS = ['secp256k1 signature verification, address derivation, SHA-256 and progpow cannot be encoded: in h_checkatv/h_checkvtb they are link-level oracles (arbitrary verdicts / uninterpreted collision-free hash), i.e. the claim is about how the verdicts are COMBINED and what they are asked about, not about the primitives themselves', 'split (chunked) embeddings are covered for memory safety in C06 only; checkATV/checkVTB wholes are decided modulo the oracles above', 'block hashes are preset']
