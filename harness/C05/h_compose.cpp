// C05 H-COMPOSE: the REAL checkATV / checkVTB (with everything below them: checkVbkTx, checkVbkPopTx, checkPublicationData,
// checkSignature, checkMerklePath + calculateMerkleRoot of both Merkle path types, checkBitcoinTransactionForPoPData,
// checkBtcBlocks) return valid  <=>  every fact they stand for holds.
// What cannot be encoded is replaced at LINK level (cross-TU definitions given here override the repo's, see 'override' in
// the spec) by nondeterministic oracles whose answers are symbolic inputs, so the solver decides every combination:
//   * sha256(a,b) / sha256twice(a,b) (Merkle node hash)      -> an uninterpreted collision-free function over 64 bytes:
//        fresh symbolic output per call, constrained by (inputs equal <=> outputs equal) against every earlier call
//   * VbkTx::getHash / VbkPopTx::getHash / BtcTx::getHash    -> arbitrary (symbolic) 256-bit ids, fixed per object
//   * Address::isDerivedFromPublicKey, secp256k1::verify     -> arbitrary booleans; the stubs CHECK that they are asked
//        about the transaction's own public key, signature and hash
//   * AltChainParams::checkBlockHeader                       -> arbitrary boolean; checks it receives the endorsed header and
//        the top-level Merkle root of the carried context info
// The expected verdict is computed independently (Merkle fold written here from the documented layout).
#include <veriblock/pop/entities/atv.hpp>
#include <veriblock/pop/entities/vtb.hpp>
#include <veriblock/pop/entities/context_info_container.hpp>
#include <veriblock/pop/stateless_validation.hpp>
#include <veriblock/pop/blockchain/alt_chain_params.hpp>
#include <veriblock/pop/blockchain/btc_chain_params.hpp>
#include <veriblock/pop/blockchain/vbk_chain_params.hpp>
#include <veriblock/pop/crypto/secp256k1.hpp>
using namespace altintegration;

#ifndef HB
#define HB 8      // symbolic bytes per 256-bit hash value (ids, layers, roots, node hashes); the remaining bytes are zero
#endif
// ---------------------------------------------------------------- uninterpreted node hash
struct UfRec { uint8_t fid; uint8_t in[64]; uint8_t out[32]; };
static UfRec ufRecs[24];
static int ufN = 0;
static uint256 ufHash(uint8_t fid, Slice<const uint8_t> a, Slice<const uint8_t> b) {
  verif_check(a.size() + b.size() == 64 && ufN < 24, 990);
  UfRec& r = ufRecs[ufN];
  r.fid = fid;
  for (size_t i = 0; i < a.size(); i++) r.in[i] = a[i];
  for (size_t i = 0; i < b.size(); i++) r.in[a.size() + i] = b[i];
  for (int i = 0; i < 32; i++) r.out[i] = 0;
  for (int w = 0; w < HB / 8; w++) { uint64_t x = nondet_u64(); for (int k = 0; k < 8; k++) r.out[8 * w + k] = (uint8_t)(x >> (8 * k)); }
  bool axioms = true;
  for (int j = 0; j < ufN; j++) {
    if (ufRecs[j].fid != fid) continue;
    uint8_t di = 0, dout = 0;
    for (int i = 0; i < 64; i++) di |= (uint8_t)(ufRecs[j].in[i] ^ r.in[i]);
    for (int i = 0; i < 32; i++) dout |= (uint8_t)(ufRecs[j].out[i] ^ r.out[i]);
    axioms = axioms & ((di == 0) == (dout == 0));     // a function, and collision free
  }
  verif_assume(axioms);
  ufN++;
  uint256 o; for (int i = 0; i < 32; i++) ((uint8_t*)o.data())[i] = r.out[i];
  return o;
}
static uint256 gTxHash, gPopTxHash, gBtcTxHash;
static bool gDerived, gSigOk, gHdrOk;
static const std::vector<uint8_t>* gKey; static const std::vector<uint8_t>* gSig; static const uint256* gMsg;
static const Address* gAddr;
static int gVerifyCalls = 0, gDerivedCalls = 0, gHdrCalls = 0;
static std::vector<uint8_t>* gHdrRootSeen;
#ifdef REAL_KEYPARSE
namespace altintegration { void* secp256k1_context_create(unsigned) { return nullptr; } }   // libsecp256k1 itself is not linked: its context (a global of secp256k1.cpp) is never used on the explored paths
#endif
namespace altintegration {
uint256 sha256(Slice<const uint8_t> a, Slice<const uint8_t> b) { return ufHash(1, a, b); }
uint256 sha256twice(Slice<const uint8_t> a, Slice<const uint8_t> b) { return ufHash(2, a, b); }
uint256 VbkTx::getHash() const { return gTxHash; }
VbkPopTx::hash_t VbkPopTx::getHash() const { return gPopTxHash; }
BtcTx::hash_t BtcTx::getHash() const { return gBtcTxHash; }
bool Address::isDerivedFromPublicKey(Slice<const uint8_t> pk) const {
  gDerivedCalls++;
  verif_check(this == gAddr && pk.data() == gKey->data() && pk.size() == gKey->size(), 980);   // asked about the sender address and the carried key
  return gDerived;
}
namespace secp256k1 {
#ifndef REAL_KEYPARSE
PublicKey publicKeyFromVbk(PublicKeyVbk key) { PublicKey k; for (size_t i = 0; i < key.size() && i < k.size(); i++) ((uint8_t*)k.data())[i] = key[i]; return k; }
#endif
bool verify(Slice<const uint8_t> message, Signature signature, PublicKey publicKey) {
  gVerifyCalls++;
  bool same = message.size() == 32 && signature == *gSig;
  for (size_t i = 0; same && i < 32; i++) same = message[i] == gMsg->data()[i];
#ifndef REAL_KEYPARSE
  for (size_t i = 0; same && i < gKey->size() && i < publicKey.size(); i++) same = publicKey.data()[i] == (*gKey)[i];
#endif
  verif_check(same, 981);                                                                      // the signature is verified over the transaction's own hash, signature and key
  return gSigOk;
}
}  // namespace secp256k1
}  // namespace altintegration

struct AP : AltChainParams {
  int64_t getIdentifier() const noexcept override { return 0x1122334455667788ll; }
  AltBlock getBootstrapBlock() const noexcept override { return AltBlock(); }
  std::vector<uint8_t> getHash(const std::vector<uint8_t>& b) const noexcept override { return b; }
  const std::vector<uint8_t>* hdr = nullptr;
  bool checkBlockHeader(const std::vector<uint8_t>& h, const std::vector<uint8_t>& root, ValidationState&) const noexcept override {
    gHdrCalls++;
    verif_check(h == *hdr, 982);
    *gHdrRootSeen = root;
    return gHdrOk;
  }
};
static void symBytes(uint8_t* p, int n) { for (int i = 0; i < n && i < HB; i += 8) { uint64_t x = nondet_u64(); for (int k = 0; k < 8 && i + k < n; k++) p[i + k] = (uint8_t)(x >> (8 * k)); } }
static bool eqBytes(const uint8_t* a, const uint8_t* b, int n) { uint8_t d = 0; for (int i = 0; i < n; i++) d |= (uint8_t)(a[i] ^ b[i]); return d == 0; }
static VbkChainParams& pickVbk(int which) {
  if (which == 0) return *new VbkChainParamsRegTest();
  if (which == 1) return *new VbkChainParamsTest();
  return *new VbkChainParamsMain();
}
// VBK Merkle path per the documented layout: the transaction tree is folded by the bits of `index`, the level below the top by
// the tree selector (POP tree = 0 / normal tree = 1), and at the top the metapackage hash sits on the LEFT; root = first 16 bytes
static void refVbkRoot(const VbkMerklePath& mp, uint8_t out16[16]) {
  uint256 cur = mp.subject;
  size_t n = mp.layers.size();
  for (size_t i = 0; i < n; i++) {
    unsigned bit = i == n - 1 ? 1u : (i == n - 2 ? ((unsigned)mp.treeIndex & 1u) : (((unsigned)mp.index >> i) & 1u));
    cur = bit ? ufHash(1, mp.layers[i], cur) : ufHash(1, cur, mp.layers[i]);
  }
  for (int i = 0; i < 16; i++) out16[i] = cur.data()[i];
}
static void symVbkPath(VbkMerklePath& mp, const uint256& honestSubject, bool subjectOk) {
  mp.treeIndex = (int32_t)(nondet_u8() & 1);
  mp.index = (int32_t)(nondet_u8() & 7);
  if (subjectOk) mp.subject = honestSubject; else { symBytes((uint8_t*)mp.subject.data(), 32); verif_assume(!eqBytes(mp.subject.data(), honestSubject.data(), 32)); }
  uint32_t n = verif_choice(0, NLAYERS);
  for (uint32_t i = 0; i < n; i++) { uint256 l; symBytes((uint8_t*)l.data(), 32); mp.layers.push_back(l); }
}

extern "C" __attribute__((noinline)) void h_compose() {
  auto& st = *new ValidationState();
  gHdrRootSeen = new std::vector<uint8_t>();
  int net = (int)verif_choice(0, 2);
  VbkChainParams& vbk = pickVbk(net);
  VbkNetworkType magic = vbk.getTransactionMagicByte();
  gDerived = verif_bool(); gSigOk = verif_bool();
#ifdef MODE_ATV
  auto& ap = *new AP();
  auto& atv = *new ATV();
  VbkTx& tx = atv.transaction;
  symBytes((uint8_t*)gTxHash.data(), 32);
  gHdrOk = verif_bool();
  gKey = &tx.publicKey; gSig = &tx.signature; gMsg = &gTxHash; gAddr = &tx.sourceAddress;
  tx.publicKey = std::vector<uint8_t>(8, 3); tx.signature = std::vector<uint8_t>(8, 4);
#ifdef REAL_KEYPARSE
  // the REAL secp256k1::publicKeyFromVbk parses the carried key: malformed keys (wrong length, wrong format byte) must make the check
  // return an invalid state - not throw past checkATV.  (Well-formed keys would enter libsecp256k1, which is not encoded: not generated.)
  { uint32_t kf = verif_choice(0, 4);
    if (kf == 1) { tx.publicKey = std::vector<uint8_t>(33, 7); }                      // compressed size, format byte neither 02 nor 03
    if (kf == 2) { tx.publicKey = std::vector<uint8_t>(65, 7); }                      // uncompressed size, format byte not 04
    if (kf == 3) { tx.publicKey = std::vector<uint8_t>(88, 7); }                      // ASN.1 size, byte 23 not 04
    if (kf == 4) { tx.publicKey = std::vector<uint8_t>(); }                           // empty
    verif_cover(10 + (int)kf); }
#endif
  bool magicOk = verif_cbool();
  tx.networkOrType.networkType = magic;
  if (!magicOk) { if (verif_cbool()) tx.networkOrType.networkType.hasValue = !magic.hasValue; else { tx.networkOrType.networkType.hasValue = true; tx.networkOrType.networkType.value = (uint8_t)(magic.value + 1); } }
  tx.networkOrType.typeId = 1;
  uint32_t nout = verif_cbool() ? (uint32_t)MAX_OUTPUTS_COUNT + 1 : verif_choice(0, 2);
  int64_t sum = 0;
  for (uint32_t i = 0; i < nout; i++) { Output o; o.coin.units = i < 2 ? (int64_t)nondet_u16() : 1; sum += o.coin.units; tx.outputs.push_back(o); }
  tx.sourceAmount.units = (int64_t)nondet_u16() + (nout > 2 ? 300 : 0);
  bool feeOk = tx.sourceAmount.units - sum >= 0;
  tx.publicationData.identifier = (int64_t)nondet_u64();
  bool idOk = tx.publicationData.identifier == ap.getIdentifier();
  tx.publicationData.header = std::vector<uint8_t>{1, 2, 3, 4, 5};
  ap.hdr = &tx.publicationData.header;
  AuthenticatedContextInfoContainer c;
  c.ctx.height = 77; c.ctx.keystones.firstPreviousKeystone = std::vector<uint8_t>(32, 9); c.ctx.keystones.secondPreviousKeystone = std::vector<uint8_t>(32, 8);
  for (int i = 0; i < 32; i++) ((uint8_t*)c.stateRoot.data())[i] = (uint8_t)(i + 1);
  { WriteStream w; c.toVbkEncoding(w); tx.publicationData.contextInfo = w.data(); }
  bool ctxOk = verif_cbool();
  if (!ctxOk) { static const unsigned cut[3] = {1, 33, 60}; tx.publicationData.contextInfo.resize(tx.publicationData.contextInfo.size() - cut[verif_choice(0, 2)]); }   // truncated context info does not deserialize
  bool subjectOk = verif_cbool();
  symVbkPath(atv.merklePath, gTxHash, subjectOk);
  symBytes((uint8_t*)atv.blockOfProof.merkleRoot.data(), 16);
  atv.checked = false;
  bool got = checkATV(atv, st, ap, vbk);
  uint8_t want16[16]; refVbkRoot(atv.merklePath, want16);
  bool rootOk = eqBytes(want16, atv.blockOfProof.merkleRoot.data(), 16);
  bool hdrAuth = gHdrOk;
  if (gHdrCalls) {                                                    // the header was authenticated against sha256d(stateRoot, sha256d(context))
    uint256 ch = c.ctx.getHash(); uint256 tl = ufHash(2, c.stateRoot, ch);
    verif_check(gHdrRootSeen->size() == 32 && eqBytes(gHdrRootSeen->data(), tl.data(), 32), 10);
  }
  bool expect = nout <= (uint32_t)MAX_OUTPUTS_COUNT && magicOk && feeOk && idOk && ctxOk && hdrAuth && gDerived && gSigOk && subjectOk && rootOk;
#ifdef REAL_KEYPARSE
  expect = false;                                                      // every generated key is malformed
#endif
  verif_check(got == expect, 1);                                      // valid exactly when every fact holds
  verif_check(atv.checked == got, 2);                                 // the memo is set only by a successful full check
  verif_check(got == st.IsValid(), 3);
#ifndef REAL_KEYPARSE
  if (got) { verif_check(gVerifyCalls == 1 && gDerivedCalls == 1 && gHdrCalls == 1, 4); verif_cover(1); if (atv.merklePath.layers.size() >= 2) verif_cover(2); }
  else verif_cover(3);
#else
  if (gDerivedCalls) verif_cover(3);
#endif
  if (!rootOk && nout <= 2 && magicOk && feeOk && idOk && ctxOk && hdrAuth && gDerived && gSigOk && subjectOk) verif_cover(4);
  auto& st2 = *new ValidationState();
  verif_check(checkATV(atv, st2, ap, vbk) == got, 5);                 // repeatable
#else
  auto& btcp = *new BtcChainParamsRegTest();
  auto& vtb = *new VTB();
  VbkPopTx& tx = vtb.transaction;
  symBytes((uint8_t*)gPopTxHash.data(), 32); symBytes((uint8_t*)gBtcTxHash.data(), 32);
  gKey = &tx.publicKey; gSig = &tx.signature; gMsg = &gPopTxHash; gAddr = &tx.address;
  tx.publicKey = std::vector<uint8_t>(8, 3); tx.signature = std::vector<uint8_t>(8, 4);
  // case-split deviations: at most ONE of them per path (they feed a short-circuit chain of independent checks); the symbolic facts
  // (oracle verdicts, ids, roots, indices, layers) vary freely on top of it
  enum { D_NONE, D_MAGIC_PRESENCE, D_MAGIC_VALUE, D_EMBED_FIRST, D_EMBED_MID, D_EMBED_LAST, D_BTC_SUBJECT, D_CTX_LINK, D_CTX_POW, D_SUBJECT, D_COUNT };
  uint32_t dev = verif_choice(0, D_COUNT - 1);
  bool magicOk = dev != D_MAGIC_PRESENCE && dev != D_MAGIC_VALUE;
  tx.networkOrType.networkType = magic;
  if (dev == D_MAGIC_PRESENCE) tx.networkOrType.networkType.hasValue = !magic.hasValue;
  if (dev == D_MAGIC_VALUE) { tx.networkOrType.networkType.hasValue = true; tx.networkOrType.networkType.value = (uint8_t)(magic.value + 1); }
  // the 80 publication bytes, embedded honestly behind a 3-byte prefix; optionally one byte of the embedding is altered
  tx.publishedBlock.height = 1234; tx.publishedBlock.version = 2; tx.publishedBlock.timestamp = 1600000000; tx.publishedBlock.difficulty = 0x0100ffff; tx.publishedBlock.nonce = 0x1122334455ull;
  std::vector<uint8_t> pub;
  { WriteStream w; tx.publishedBlock.toRaw(w); tx.address.getPopBytes(w); pub = w.data(); }
  verif_check(pub.size() == 80, 991);
  auto& btx = tx.bitcoinTransaction.tx;
  btx = std::vector<uint8_t>{0x55, 0x66, 0x77};
  btx.insert(btx.end(), pub.begin(), pub.end());
  btx.push_back(0x42);
  bool embedOk = !(dev >= D_EMBED_FIRST && dev <= D_EMBED_LAST);
  if (dev == D_EMBED_FIRST) btx[3] ^= 0x10;
  if (dev == D_EMBED_MID) btx[3 + 64] ^= 0x10;      // last byte of the header part
  if (dev == D_EMBED_LAST) btx[3 + 79] ^= 0x10;
  // BTC Merkle path against the (reversed) Merkle root of the block of proof
  MerklePath& mp = tx.merklePath;
  mp.index = (int32_t)(nondet_u8() & 7);
  bool btcSubjectOk = dev != D_BTC_SUBJECT;
  if (btcSubjectOk) mp.subject = gBtcTxHash; else { symBytes((uint8_t*)mp.subject.data(), 32); verif_assume(!eqBytes(mp.subject.data(), gBtcTxHash.data(), 32)); }
  uint32_t nl = verif_choice(0, NLAYERS);
  for (uint32_t i = 0; i < nl; i++) { uint256 l; symBytes((uint8_t*)l.data(), 32); mp.layers.push_back(l); }
  symBytes((uint8_t*)tx.blockOfProof.merkleRoot.data(), 32);
  // context: 0..2 BTC headers with preset hashes, optionally not linked or too hard
  uint32_t nctx = verif_choice(0, 2);
  bool ctxOk = true;
  uint32_t bad = nctx ? verif_choice(0, nctx - 1) : 0;
  for (uint32_t i = 0; i < nctx; i++) {
    BtcBlock b; b.version = 1; b.timestamp = 1000 + i; b.bits = 0x207fffff; b.nonce = i;
    ((uint8_t*)b.hash_.data())[31] = (uint8_t)(i + 1);
    if (i > 0) ((uint8_t*)b.previousBlock.data())[31] = (uint8_t)i;
    if (dev == D_CTX_LINK && i == bad && i > 0) { ((uint8_t*)b.previousBlock.data())[7] = 1; ctxOk = false; }
    if (dev == D_CTX_POW && i == bad) { ((uint8_t*)b.hash_.data())[0] = 0xff; ctxOk = false; }     // hash above the target: PoW fails
    tx.blockOfProofContext.push_back(b);
  }
  // a PoW-failing header also has a different hash: the next header references that hash, so the context stays linked
  for (uint32_t i = 1; i < nctx; i++) ((uint8_t*)tx.blockOfProofContext[i].previousBlock.data())[0] = tx.blockOfProofContext[i - 1].hash_.data()[0];
  bool subjectOk = dev != D_SUBJECT;
  symVbkPath(vtb.merklePath, gPopTxHash, subjectOk);
  symBytes((uint8_t*)vtb.containingBlock.merkleRoot.data(), 16);
  vtb.checked = false;
  bool got = checkVTB(vtb, st, btcp, vbk);
  // expected BTC root: fold by the bits of index with the double-SHA node hash; the header stores it byte-reversed
  uint256 cur = mp.subject;
  for (uint32_t i = 0; i < nl; i++) cur = (((unsigned)mp.index >> i) & 1u) ? ufHash(2, mp.layers[i], cur) : ufHash(2, cur, mp.layers[i]);
  uint8_t rev[32]; for (int i = 0; i < 32; i++) rev[i] = tx.blockOfProof.merkleRoot.data()[31 - i];
  bool btcRootOk = eqBytes(cur.data(), rev, 32);
  uint8_t want16[16]; refVbkRoot(vtb.merklePath, want16);
  bool rootOk = eqBytes(want16, vtb.containingBlock.merkleRoot.data(), 16);
  bool expect = magicOk && embedOk && btcSubjectOk && btcRootOk && ctxOk && gDerived && gSigOk && subjectOk && rootOk;
  verif_check(got == expect, 1);
  verif_check(vtb.checked == got, 2);
  verif_check(got == st.IsValid(), 3);
  if (got) { verif_check(gVerifyCalls == 1 && gDerivedCalls == 1, 4); verif_cover(1); if (nl >= 2 && nctx == 2) verif_cover(2); }
  else verif_cover(3);
  if (!btcRootOk && magicOk && embedOk && btcSubjectOk) verif_cover(4);
  auto& st2 = *new ValidationState();
  verif_check(checkVTB(vtb, st2, btcp, vbk) == got, 5);
#endif
}
