// C05: stateless validation kernels on symbolic inputs.
//  MODE_EMBED : checkBitcoinTransactionForPoPData true => the 80 publication bytes really occur contiguously in the BTC tx
//               (tx bytes and the 65 header bytes symbolic; tx free of the split magic byte so only the contiguous rule applies)
//  MODE_HONEST: an honest contiguous embedding at any offset is accepted
//  MODE_POW   : checkProofOfWork(BtcBlock) == 256-bit reference (symbolic bits and hash bytes)
//  MODE_CTX   : checkBtcBlocks true => every header meets its PoW and prev[i] == hash[i-1]
//  MODE_VBKPOW: checkProofOfWork(VbkBlock) == reference (target = (2^192-1) / decoded difficulty, minimum difficulty of the network)
//  MODE_VBKCTX: checkVbkBlocks valid iff every header meets its PoW, heights increase by one and each header references its predecessor
#include <veriblock/pop/entities/vbkpoptx.hpp>
#include <veriblock/pop/stateless_validation.hpp>
#include <veriblock/pop/blockchain/btc_chain_params.hpp>
#include <veriblock/pop/blockchain/vbk_chain_params.hpp>
namespace altintegration { namespace progpow { uint64_t ethash_get_cachesize(uint64_t const block_number); } }   // src/pop/crypto/progpow/libethash/internal.hpp (not an installed header)
using namespace altintegration;
namespace altintegration { bool checkBitcoinTransactionForPoPData(const VbkPopTx& tx, ValidationState& state); }
#ifndef TXLEN
#define TXLEN 81
#endif
static void symHeader(VbkBlock& b, uint8_t* E) {
  // E receives the 65 raw header bytes per the wire layout (independent of VbkBlock::toRaw)
  for (int i = 0; i < 65; i++) E[i] = nondet_u8();
  b.height = (int32_t)(((uint32_t)E[0] << 24) | ((uint32_t)E[1] << 16) | ((uint32_t)E[2] << 8) | E[3]);
  b.version = (int16_t)(((uint16_t)E[4] << 8) | E[5]);
  for (int i = 0; i < 12; i++) ((uint8_t*)b.previousBlock.data())[i] = E[6 + i];
  for (int i = 0; i < 9; i++) ((uint8_t*)b.previousKeystone.data())[i] = E[18 + i];
  for (int i = 0; i < 9; i++) ((uint8_t*)b.secondPreviousKeystone.data())[i] = E[27 + i];
  for (int i = 0; i < 16; i++) ((uint8_t*)b.merkleRoot.data())[i] = E[36 + i];
  b.timestamp = ((uint32_t)E[52] << 24) | ((uint32_t)E[53] << 16) | ((uint32_t)E[54] << 8) | E[55];
  b.difficulty = (int32_t)(((uint32_t)E[56] << 24) | ((uint32_t)E[57] << 16) | ((uint32_t)E[58] << 8) | E[59]);
  b.nonce = ((uint64_t)E[60] << 32) | ((uint64_t)E[61] << 24) | ((uint64_t)E[62] << 16) | ((uint64_t)E[63] << 8) | E[64];
}
struct R256 { uint8_t b[32]; };
static R256 refSetCompact(uint32_t c, bool& neg, bool& ovf) {
  unsigned nSize = c >> 24; uint32_t word = c & 0x007fffff;
  R256 r; for (int i = 0; i < 32; i++) r.b[i] = 0;
  if (nSize <= 3) { word >>= 8 * (3 - nSize); r.b[0] = (uint8_t)word; r.b[1] = (uint8_t)(word >> 8); r.b[2] = (uint8_t)(word >> 16); }
  else { for (int k = 0; k < 3; k++) { unsigned pos = nSize - 3 + k; if (pos < 32) r.b[pos] = (uint8_t)(word >> (8 * k)); } }
  neg = word != 0 && (c & 0x00800000) != 0;
  ovf = word != 0 && ((nSize > 34) || (word > 0xff && nSize > 33) || (word > 0xffff && nSize > 32));
  return r;
}
static int rcmp(const R256& x, const R256& y) { int r = 0; for (int i = 0; i < 32; i++) { int d = (x.b[i] > y.b[i]) - (x.b[i] < y.b[i]); r = d != 0 ? d : r; } return r; }  // little-endian, branch-light
static bool rzero(const R256& x) { uint8_t d = 0; for (int i = 0; i < 32; i++) d |= x.b[i]; return d == 0; }
// reference PoW rule; hashDisplay = hash in display order (byte 0 most significant)
static bool refPow(uint32_t bits, const uint8_t* hashDisplay, const R256& limit) {
  bool neg, ovf;
  R256 t = refSetCompact(bits, neg, ovf);
  if (neg || ovf || rzero(t) || rcmp(t, limit) > 0) return false;
  R256 h; for (int i = 0; i < 32; i++) h.b[i] = hashDisplay[31 - i];
  return rcmp(h, t) <= 0;
}
static R256 regtestLimit() { R256 l; for (int i = 0; i < 32; i++) l.b[i] = 0xff; l.b[31] = 0x7f; return l; }
static BtcBlock symBtc(uint8_t id, const uint8_t* prevHash, uint32_t bits, uint8_t h0, uint8_t h1) {
  BtcBlock b; b.version = 1; b.timestamp = 1000; b.bits = bits; b.nonce = id;
  if (prevHash) for (int i = 0; i < 32; i++) ((uint8_t*)b.previousBlock.data())[i] = prevHash[i];
  uint8_t* h = (uint8_t*)b.hash_.data(); h[31] = id; h[0] = h0; h[1] = h1;
  return b;
}
extern "C" __attribute__((noinline)) void h_stateless() {
#if defined(MODE_EMBED) || defined(MODE_HONEST)
  auto& tx = *new VbkPopTx();
  uint8_t E[80];
  symHeader(tx.publishedBlock, E);
  { WriteStream w; tx.address.getPopBytes(w); for (int i = 0; i < 15; i++) E[65 + i] = w.data()[i]; }
#if defined(MODE_EMBED)
  tx.bitcoinTransaction.tx.resize(TXLEN);
  for (int i = 0; i < TXLEN; i++) { uint8_t c = nondet_u8(); verif_assume(c != 0x92); tx.bitcoinTransaction.tx[i] = c; }   // no split magic: only the contiguous rule can accept
  auto& st = *new ValidationState();
  bool r = checkBitcoinTransactionForPoPData(tx, st);
  bool found = false;
  for (int o = 0; o + 80 <= TXLEN; o++) { uint8_t d = 0; for (int j = 0; j < 80; j++) d |= (uint8_t)(tx.bitcoinTransaction.tx[o + j] ^ E[j]); found = found || d == 0; }
  verif_check(!r || found, 1);       // accepted => the 80 bytes are genuinely embedded contiguously
  verif_check(!found || r, 2);       // embedded => accepted
  if (r) verif_cover(1); else { verif_check(!st.IsValid(), 3); verif_cover(2); }
#else
  uint32_t pre = verif_choice(0, 2), post = verif_choice(0, 2);
  auto& v = tx.bitcoinTransaction.tx;
  for (uint32_t i = 0; i < pre; i++) v.push_back(nondet_u8());
  for (int i = 0; i < 80; i++) v.push_back(E[i]);
  for (uint32_t i = 0; i < post; i++) v.push_back(nondet_u8());
  auto& st = *new ValidationState();
  verif_check(checkBitcoinTransactionForPoPData(tx, st), 1);   // every honest embedding is accepted
  verif_cover(1);
#endif
#elif defined(MODE_POW)
  auto& p = *new BtcChainParamsRegTest();
  uint32_t bits = ((uint32_t)__verif_concretize(nondet_u8()) << 24) | (nondet_u32() & 0x00ffffff);
  uint8_t hd[32]; for (int i = 0; i < 32; i++) hd[i] = nondet_u8();
  BtcBlock b; b.version = 1; b.bits = bits;
  for (int i = 0; i < 32; i++) ((uint8_t*)b.hash_.data())[i] = hd[i];
  uint8_t nz = 0; for (int i = 0; i < 32; i++) nz |= hd[i];
  verif_assume(nz != 0);  // an all-zero memo means "not computed" (SHA-256 is not encoded)
  bool got = checkProofOfWork(b, p);
  verif_check(got == refPow(bits, hd, regtestLimit()), 1);
  if (got) verif_cover(1); else verif_cover(2);
#elif defined(MODE_CTX)
  auto& p = *new BtcChainParamsRegTest();
  uint32_t n = verif_choice(1, NBLK);
  auto& v = *new std::vector<BtcBlock>();
  bool allPow = true, contiguous = true;
  uint8_t lastHash[32];
  for (uint32_t i = 0; i < n; i++) {
    uint32_t bits = verif_cbool() ? 0x207fffff : 0x1f7fffff;
    uint8_t h0 = nondet_u8(), h1 = nondet_u8();
    uint8_t prev[32]; for (int k = 0; k < 32; k++) prev[k] = 0;
    bool link = true;
    if (i > 0) { for (int k = 0; k < 32; k++) prev[k] = lastHash[k]; if (verif_cbool()) { prev[5] ^= 1; link = false; } }
    BtcBlock b = symBtc((uint8_t)(i + 1), i > 0 ? prev : nullptr, bits, h0, h1);
    uint8_t hd[32]; for (int k = 0; k < 32; k++) hd[k] = b.hash_.data()[k];
    allPow = allPow && refPow(bits, hd, regtestLimit());
    contiguous = contiguous && link;
    for (int k = 0; k < 32; k++) lastHash[k] = hd[k];
    v.push_back(b);
  }
  auto& st = *new ValidationState();
  bool got = checkBtcBlocks(v, st, p);
  verif_check(got == (allPow && contiguous), 1);   // valid exactly when every header meets its PoW and the context is contiguous
  if (got) verif_cover(1);
  if (!allPow) verif_cover(2);
  if (!contiguous) verif_cover(3);
#elif defined(MODE_VBKPOW) || defined(MODE_VBKCTX) || defined(MODE_VBKPLAUS) || defined(MODE_VBKEPOCH)
  int net = (int)verif_choice(0, 2);
  VbkChainParams& p = net == 0 ? *(VbkChainParams*)new VbkChainParamsRegTest() : net == 1 ? *(VbkChainParams*)new VbkChainParamsTest() : *(VbkChainParams*)new VbkChainParamsMain();
  const uint64_t minDiff = net == 0 ? 1ull : net == 1 ? 0x05F5E100ull : 0x14f46b0400ull;          // documented minimum difficulties (regtest / testnet / mainnet)
  // reference: decoded difficulty d (non-negative, no overflow, non-zero, >= minimum); target = floor((2^192 - 1) / d); hash (big-endian 192-bit number) <= target
  struct Ref { static bool pow(uint32_t bits, const uint8_t* hash24, uint64_t minDiff) {
    bool neg, ovf; R256 t = refSetCompact(bits, neg, ovf);
    if (neg || ovf || rzero(t)) return false;
    uint64_t d = 0; for (int i = 7; i >= 0; i--) d = (d << 8) | t.b[i];
    for (int i = 8; i < 32; i++) if (t.b[i]) return true == false ? false : (/* d >= 2^64: */ false);   // outside the grid of this harness
    if (d < minDiff) return false;
    R256 q; for (int i = 0; i < 32; i++) q.b[i] = 0;
    unsigned __int128 rem = 0;
    for (int i = 23; i >= 0; i--) { rem = (rem << 8) | 0xff; q.b[i] = (uint8_t)(rem / d); rem %= d; }
    R256 h; for (int i = 0; i < 32; i++) h.b[i] = i < 24 ? hash24[23 - i] : 0;
    return rcmp(h, q) <= 0; } };
  static const uint32_t mant[6] = {0x000000, 0x000001, 0x05F5E1, 0x14f46b, 0x7fffff, 0x800001};
  static const int forkH[3] = {0, 872000, 1512000};
  static const uint32_t startT[3] = {0, 1600444017u, 1600716052u};
#if defined(MODE_VBKEPOCH)
  // a header that passes the plausibility check must be hashable: the first thing the proof-of-work hash does is look up the ethash
  // cache size of the block's epoch, which asserts epoch < VBK_MAX_CALCULATED_EPOCHS_SIZE (the tables have that many entries)
  static const int64_t hs[6] = {0, 8000, 4095ll * 8000 + 7999, 4096ll * 8000, 4096ll * 8000 + 7999, 4097ll * 8000};
  int64_t h = hs[verif_choice(0, 5)];
  VbkBlock b; b.setHeight((int32_t)h); b.setTimestamp(2000000000u);
  auto& st = *new ValidationState();
  bool plausible = checkVbkBlockPlausibility(b, st, p);
  if (plausible) { uint64_t cs = progpow::ethash_get_cachesize((uint64_t)h); verif_check(cs > 0, 1); verif_cover(1); }   // engine obligation: no abort
  else verif_cover(2);
  verif_check(plausible == (net != 0 ? false : h / 8000 < 4096) || net != 0, 2);   // regtest: plausible exactly for the supported epochs
#elif defined(MODE_VBKPLAUS)
  // checkVbkBlockPlausibility == the documented window: height at or above the progpow fork height and inside the supported epochs;
  // (networks with a start time) timestamp not before the start time and inside [start + 30s*(h-fork)*10/12 - 5 days, start + 30s*(h-fork)*12/10 + 5 days]
  int64_t off = (int64_t)verif_choice(0, 40) * 1777 - 16;            // height relative to the fork height: 41 values from -16 to 71064 (case split: the window bounds divide by 10 and 12)
  uint32_t ts = nondet_u32();
  VbkBlock b; b.setHeight((int32_t)(forkH[net] + off)); b.setTimestamp(ts);
  auto& st = *new ValidationState();
  bool got = checkVbkBlockPlausibility(b, st, p);
  int64_t h = forkH[net] + off;
  bool want;
  if (h < forkH[net]) want = false;
  else if (h / 8000 >= 4096) want = false;                            // the ethash tables cover epochs 0..4095
  else if (net == 0) want = true;
  else {
    int64_t start = startT[net], d = h - forkH[net];
    int64_t upper = start + 30 * d * 12 / 10 + 5 * 86400, lower = start + 30 * d * 10 / 12 - 5 * 86400;
    if (lower < start) lower = start;
    want = (int64_t)ts >= start && (int64_t)ts <= upper && (int64_t)ts >= lower;
  }
  verif_check(got == want, 1);
  if (got) verif_cover(1); else verif_cover(2);
  if (net && off > 20000 && got) verif_cover(3);
#elif defined(MODE_VBKPOW)
  uint32_t bits = (verif_choice(1, 8) << 24) | mant[verif_choice(0, 5)];
  VbkBlock b; b.setDifficulty((int32_t)bits);
  uint8_t hd[24]; for (int i = 0; i < 24; i++) { hd[i] = nondet_u8(); ((uint8_t*)b.hash_.data())[i] = hd[i]; }
  uint8_t nz = 0; for (int i = 0; i < 24; i++) nz |= hd[i];
  verif_assume(nz != 0);                                            // an all-zero memo means "not computed" (progpow is not encoded)
  bool got = checkProofOfWork(b, p);
  verif_check(got == Ref::pow(bits, hd, minDiff), 1);
  if (got) verif_cover(1); else verif_cover(2);
#else
  uint32_t n = verif_choice(1, NBLK);
  auto& v = *new std::vector<VbkBlock>();
  bool allPow = true, contiguous = true;
  for (uint32_t i = 0; i < n; i++) {
    uint32_t bits = verif_cbool() ? 0x0514f46c : 0x01000001;         // meets every network's minimum / only regtest's
    VbkBlock b; b.setDifficulty((int32_t)bits); b.setHeight((int32_t)(forkH[net] + 100 + i)); b.setTimestamp(startT[net] + 30 * (100 + i));   // plausible height / time for the network
    uint8_t* h = (uint8_t*)b.hash_.data(); for (int k = 0; k < 24; k++) h[k] = 0; h[23] = (uint8_t)(i + 1); h[0] = nondet_u8(); h[8] = nondet_u8();
    if (i > 0) {
      const uint8_t* ph = v[i - 1].hash_.data();
      for (int k = 0; k < 12; k++) ((uint8_t*)b.previousBlock.data())[k] = ph[12 + k];   // the previous-block field holds the LAST 12 bytes of the predecessor's hash
      uint32_t brk = verif_choice(0, 2);
      if (brk == 1) { ((uint8_t*)b.previousBlock.data())[3] ^= 1; contiguous = false; }
      if (brk == 2) { b.setHeight((int32_t)(forkH[net] + 100 + i + 1)); contiguous = false; }
      h = (uint8_t*)b.hash_.data(); for (int k = 0; k < 24; k++) h[k] = 0; h[23] = (uint8_t)(i + 1); h[0] = nondet_u8(); h[8] = nondet_u8();   // setters emptied the memo: preset again
    }
    uint8_t hd[24]; for (int k = 0; k < 24; k++) hd[k] = b.hash_.data()[k];
    allPow = allPow && Ref::pow(bits, hd, minDiff);
    v.push_back(b);
  }
  auto& st = *new ValidationState();
  bool got = checkVbkBlocks(v, st, p);
  verif_check(got == (allPow && contiguous), 1);
  if (got) verif_cover(1);
  if (!allPow) verif_cover(2);
  if (!contiguous) verif_cover(3);
#endif
#else
#error mode
#endif
}
