// C05: stateless validation kernels on symbolic inputs.
//  MODE_EMBED : checkBitcoinTransactionForPoPData true => the 80 publication bytes really occur contiguously in the BTC tx
//               (tx bytes and the 65 header bytes symbolic; tx free of the split magic byte so only the contiguous rule applies)
//  MODE_HONEST: an honest contiguous embedding at any offset is accepted
//  MODE_POW   : checkProofOfWork(BtcBlock) == 256-bit reference (symbolic bits and hash bytes)
//  MODE_CTX   : checkBtcBlocks true => every header meets its PoW and prev[i] == hash[i-1]
#include <veriblock/pop/entities/vbkpoptx.hpp>
#include <veriblock/pop/stateless_validation.hpp>
#include <veriblock/pop/blockchain/btc_chain_params.hpp>
using namespace altintegration;
namespace altintegration { bool checkBitcoinTransactionForPoPData(const VbkPopTx& tx, ValidationState& state); }
#ifndef TXLEN
#define TXLEN 81
#endif
static void symHeader(VbkBlock& b, uint8_t* E) {
  // E receives the 65 raw header bytes per the wire layout (independent of VbkBlock::toRaw)
  for (int i = 0; i < 65; i++) E[i] = nondet_u8();
  b.height = (int32_t)(((uint32_t)E[0] << 24) | ((uint32_t)E[1] << 16) | ((uint32_t)E[2] << 8) | E[3]);
  b.version = (int16_t)(((uint16_t)E[4] << 8) | E[5]);
  for (int i = 0; i < 12; i++) ((uint8_t*)b.previousBlock.data())[i] = E[6 + i];
  for (int i = 0; i < 9; i++) ((uint8_t*)b.previousKeystone.data())[i] = E[18 + i];
  for (int i = 0; i < 9; i++) ((uint8_t*)b.secondPreviousKeystone.data())[i] = E[27 + i];
  for (int i = 0; i < 16; i++) ((uint8_t*)b.merkleRoot.data())[i] = E[36 + i];
  b.timestamp = ((uint32_t)E[52] << 24) | ((uint32_t)E[53] << 16) | ((uint32_t)E[54] << 8) | E[55];
  b.difficulty = (int32_t)(((uint32_t)E[56] << 24) | ((uint32_t)E[57] << 16) | ((uint32_t)E[58] << 8) | E[59]);
  b.nonce = ((uint64_t)E[60] << 32) | ((uint64_t)E[61] << 24) | ((uint64_t)E[62] << 16) | ((uint64_t)E[63] << 8) | E[64];
}
struct R256 { uint8_t b[32]; };
static R256 refSetCompact(uint32_t c, bool& neg, bool& ovf) {
  unsigned nSize = c >> 24; uint32_t word = c & 0x007fffff;
  R256 r; for (int i = 0; i < 32; i++) r.b[i] = 0;
  if (nSize <= 3) { word >>= 8 * (3 - nSize); r.b[0] = (uint8_t)word; r.b[1] = (uint8_t)(word >> 8); r.b[2] = (uint8_t)(word >> 16); }
  else { for (int k = 0; k < 3; k++) { unsigned pos = nSize - 3 + k; if (pos < 32) r.b[pos] = (uint8_t)(word >> (8 * k)); } }
  neg = word != 0 && (c & 0x00800000) != 0;
  ovf = word != 0 && ((nSize > 34) || (word > 0xff && nSize > 33) || (word > 0xffff && nSize > 32));
  return r;
}
static int rcmp(const R256& x, const R256& y) { int r = 0; for (int i = 0; i < 32; i++) { int d = (x.b[i] > y.b[i]) - (x.b[i] < y.b[i]); r = d != 0 ? d : r; } return r; }  // little-endian, branch-light
static bool rzero(const R256& x) { uint8_t d = 0; for (int i = 0; i < 32; i++) d |= x.b[i]; return d == 0; }
// reference PoW rule; hashDisplay = hash in display order (byte 0 most significant)
static bool refPow(uint32_t bits, const uint8_t* hashDisplay, const R256& limit) {
  bool neg, ovf;
  R256 t = refSetCompact(bits, neg, ovf);
  if (neg || ovf || rzero(t) || rcmp(t, limit) > 0) return false;
  R256 h; for (int i = 0; i < 32; i++) h.b[i] = hashDisplay[31 - i];
  return rcmp(h, t) <= 0;
}
static R256 regtestLimit() { R256 l; for (int i = 0; i < 32; i++) l.b[i] = 0xff; l.b[31] = 0x7f; return l; }
static BtcBlock symBtc(uint8_t id, const uint8_t* prevHash, uint32_t bits, uint8_t h0, uint8_t h1) {
  BtcBlock b; b.version = 1; b.timestamp = 1000; b.bits = bits; b.nonce = id;
  if (prevHash) for (int i = 0; i < 32; i++) ((uint8_t*)b.previousBlock.data())[i] = prevHash[i];
  uint8_t* h = (uint8_t*)b.hash_.data(); h[31] = id; h[0] = h0; h[1] = h1;
  return b;
}
extern "C" __attribute__((noinline)) void h_stateless() {
#if defined(MODE_EMBED) || defined(MODE_HONEST)
  auto& tx = *new VbkPopTx();
  uint8_t E[80];
  symHeader(tx.publishedBlock, E);
  { WriteStream w; tx.address.getPopBytes(w); for (int i = 0; i < 15; i++) E[65 + i] = w.data()[i]; }
#if defined(MODE_EMBED)
  tx.bitcoinTransaction.tx.resize(TXLEN);
  for (int i = 0; i < TXLEN; i++) { uint8_t c = nondet_u8(); verif_assume(c != 0x92); tx.bitcoinTransaction.tx[i] = c; }   // no split magic: only the contiguous rule can accept
  auto& st = *new ValidationState();
  bool r = checkBitcoinTransactionForPoPData(tx, st);
  bool found = false;
  for (int o = 0; o + 80 <= TXLEN; o++) { uint8_t d = 0; for (int j = 0; j < 80; j++) d |= (uint8_t)(tx.bitcoinTransaction.tx[o + j] ^ E[j]); found = found || d == 0; }
  verif_check(!r || found, 1);       // accepted => the 80 bytes are genuinely embedded contiguously
  verif_check(!found || r, 2);       // embedded => accepted
  if (r) verif_cover(1); else { verif_check(!st.IsValid(), 3); verif_cover(2); }
#else
  uint32_t pre = verif_choice(0, 2), post = verif_choice(0, 2);
  auto& v = tx.bitcoinTransaction.tx;
  for (uint32_t i = 0; i < pre; i++) v.push_back(nondet_u8());
  for (int i = 0; i < 80; i++) v.push_back(E[i]);
  for (uint32_t i = 0; i < post; i++) v.push_back(nondet_u8());
  auto& st = *new ValidationState();
  verif_check(checkBitcoinTransactionForPoPData(tx, st), 1);   // every honest embedding is accepted
  verif_cover(1);
#endif
#elif defined(MODE_POW)
  auto& p = *new BtcChainParamsRegTest();
  uint32_t bits = ((uint32_t)__verif_concretize(nondet_u8()) << 24) | (nondet_u32() & 0x00ffffff);
  uint8_t hd[32]; for (int i = 0; i < 32; i++) hd[i] = nondet_u8();
  BtcBlock b; b.version = 1; b.bits = bits;
  for (int i = 0; i < 32; i++) ((uint8_t*)b.hash_.data())[i] = hd[i];
  uint8_t nz = 0; for (int i = 0; i < 32; i++) nz |= hd[i];
  verif_assume(nz != 0);  // an all-zero memo means "not computed" (SHA-256 is not encoded)
  bool got = checkProofOfWork(b, p);
  verif_check(got == refPow(bits, hd, regtestLimit()), 1);
  if (got) verif_cover(1); else verif_cover(2);
#elif defined(MODE_CTX)
  auto& p = *new BtcChainParamsRegTest();
  uint32_t n = verif_choice(1, NBLK);
  auto& v = *new std::vector<BtcBlock>();
  bool allPow = true, contiguous = true;
  uint8_t lastHash[32];
  for (uint32_t i = 0; i < n; i++) {
    uint32_t bits = verif_cbool() ? 0x207fffff : 0x1f7fffff;
    uint8_t h0 = nondet_u8(), h1 = nondet_u8();
    uint8_t prev[32]; for (int k = 0; k < 32; k++) prev[k] = 0;
    bool link = true;
    if (i > 0) { for (int k = 0; k < 32; k++) prev[k] = lastHash[k]; if (verif_cbool()) { prev[5] ^= 1; link = false; } }
    BtcBlock b = symBtc((uint8_t)(i + 1), i > 0 ? prev : nullptr, bits, h0, h1);
    uint8_t hd[32]; for (int k = 0; k < 32; k++) hd[k] = b.hash_.data()[k];
    allPow = allPow && refPow(bits, hd, regtestLimit());
    contiguous = contiguous && link;
    for (int k = 0; k < 32; k++) lastHash[k] = hd[k];
    v.push_back(b);
  }
  auto& st = *new ValidationState();
  bool got = checkBtcBlocks(v, st, p);
  verif_check(got == (allPow && contiguous), 1);   // valid exactly when every header meets its PoW and the context is contiguous
  if (got) verif_cover(1);
  if (!allPow) verif_cover(2);
  if (!contiguous) verif_cover(3);
#else
#error mode
#endif
}
