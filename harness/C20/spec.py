import os, importlib.util as _ilu
_sp = _ilu.spec_from_file_location('c02spec', os.path.join(os.path.dirname(os.path.abspath(__file__)), '..', 'C02', 'spec.py'))
_c02 = _ilu.module_from_spec(_sp); _sp.loader.exec_module(_c02)
import copy
h = copy.deepcopy(_c02.HARNESSES[0])
h['obligations'] = ['every block that reports BLOCK_CAN_BE_APPLIED (and is not failed) after the explored history is valid on its own ancestry per the independent specification, and setState to it succeeds from the current state',
                    'a candidate whose payloads are valid only thanks to the competing chain (SP parent / block of proof introduced by the other fork) never wins a comparison and is never raised to full validity',
                    'the first activated target can be re-activated at the end of the history']
_rp = _ilu.spec_from_file_location('realspec', os.path.join(os.path.dirname(os.path.abspath(__file__)), '..', 'real', 'spec.py'))
_real = _ilu.module_from_spec(_rp); _rp.loader.exec_module(_real)
h4 = copy.deepcopy([x for x in _c02.HARNESSES if x['name'] == 'h_toy4'][0])
h4['tiers'] = ['quick', 'thorough']
h4['rungs']['quick'] = [dict(h4['rungs']['thorough'][-1], timeout=450)]
h4['obligations'] = h['obligations'][:2] + ['4-block trees: a winning candidate is valid on its own ancestry; after every call exactly root..tip are applied (a block that was only validated next to the other chain is unapplied and re-validated before it can win)']
hf = copy.deepcopy([x for x in _c02.HARNESSES if x['name'] == 'h_toyfork'][0])
hf['obligations'] = h4['obligations']
hr = copy.deepcopy([x for x in _real.CTX_HARNESSES if x['name'] == 'h_realrefs'][0])
HARNESSES = [h, h4, hf, hr]
EXPLANATION = _c02.EXPLANATION
ASSUMPTIONS = _real.ASSUMPTIONS + _c02.ASSUMPTIONS + ['mempool payload filtering and payload removal paths are outside']
