// C09 H-FINFR (F-TT): after finalization with a preserved window, the POP-aware comparator refuses every candidate that
// forks off below the final block (TIP_IS_FINAL short-cuts), whatever the keystone geometry; the same candidate is compared
// normally in a twin world that never finalizes. Real code: BaseBlockTree::finalizeBlocks, PopAwareForkResolutionComparator.
#include "common/toy_env.hpp"
using namespace vt;
#ifndef LCH
#define LCH 4
#endif
static int runWorld(bool finalize, int ki, int forkAt, int forkLen, int maxReorg, int preserve, bool* tipKept) {
  World& w = newWorld();
  ToyEd& t = *w.t;
  w.ep->ki = (uint32_t)ki;
  // main chain 2..LCH+1 (heights 1..LCH); fork of forkLen blocks on the block at height forkAt
  for (int h = 1; h <= LCH; h++) addEd(w, (uint8_t)(1 + h), (uint8_t)h);
  int prev = 1 + forkAt, id = LCH + 2;
  for (int k = 0; k < forkLen; k++) { addEd(w, (uint8_t)id, (uint8_t)prev); prev = id++; }
  ValidationState st;
  bool ok = t.setState(*t.ed((uint8_t)(LCH + 1)), st);
  verif_check(ok, 1);
  for (auto* b : t.getBlocks()) b->unsetDirty();                 // everything saved
  if (finalize) t.BaseBlockTree<EdBlock>::finalizeBlocks(maxReorg, preserve);
  auto* cand = t.ed((uint8_t)(id - 1));
  if (!cand) { *tipKept = true; return 1000; }                     // candidate was deallocated: it can never be compared again
  auto* tip = t.getBestChain().tip();
  int r = t.comparePopScore(*cand);
  *tipKept = t.getBestChain().tip() == tip;
  checkApplied(w, 100);
  return r;
}
extern "C" __attribute__((noinline)) void h_toyfin() {
  int ki = (int)verif_choice(1, 4); if (ki == 4) ki = 10;   // 10: nothing crosses a keystone boundary
  int forkAt = (int)verif_choice(0, LCH - 1), forkLen = (int)verif_choice(1, 2);
  int maxReorg = (int)verif_choice(1, 2), preserve = (int)verif_choice(0, 2);
  bool keptF = false, keptN = false;
  int rF = runWorld(true, ki, forkAt, forkLen, maxReorg, preserve, &keptF);
  int finalH = LCH - maxReorg;                                     // height of the block that became final
  if (forkAt < finalH) {
    verif_check(rF > 0, 2);                                        // forks below the final block are refused, never "equal" or better
    verif_check(keptF, 3);                                         // and the active chain does not leave the final block
    verif_cover(1);
    if (rF != 1000) verif_cover(2);                                // the candidate survived in the preserved window and was really compared
  } else {
    // at or above the final block: finalization is transparent -> same verdict as an instance that never finalizes
    int rN = runWorld(false, ki, forkAt, forkLen, maxReorg, preserve, &keptN);
    verif_check((rF > 0) == (rN > 0) && (rF < 0) == (rN < 0), 4);
    verif_check(keptF == keptN, 5);
    verif_cover(3);
  }
}
