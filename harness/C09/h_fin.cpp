// C09: finalization on the real BaseBlockTree (BTC instantiation).
//  MODE_OUTDATED: isBlockOutdated(final, c) == NOT (c == final or c descends from final), all trees/pairs
//  MODE_FIN     : finalizeBlocks(maxReorg, preserve) post-conditions for every tree shape, dirty set and parameter choice;
//                 afterwards further headers (incl. forks below the final block) and invalidations keep every invariant and never
//                 touch freed memory; the final block stays on the best chain.
#include "common/btc_env.hpp"
using namespace vh;
#ifndef NBLK
#define NBLK 5
#endif
static bool descends(const uint8_t* parent, int x, int a) { while (x) { if (x == a) return true; x = parent[x]; } return false; }
extern "C" __attribute__((noinline)) void h_fin() {
  auto& p = *new BtcP();
  auto& t = newBtcTree(p);
  uint8_t parent[NBLK + 4] = {0};
  buildSymbolicTree(t, NBLK, parent);
#if defined(MODE_OUTDATED)
  uint8_t f = (uint8_t)verif_choice(1, NBLK), c = (uint8_t)verif_choice(1, NBLK);
  bool got = isBlockOutdated(*idx(t, f), *idx(t, c));
  bool related = descends(parent, c, f);   // the final block itself or one of its descendants (blocks behind the final block are outdated)
  verif_check(got == !related, 1);
  if (got) verif_cover(1); else verif_cover(2);
#else
  int height[NBLK + 4] = {0};
  for (int id = 2; id <= NBLK; id++) height[id] = height[parent[id]] + 1;
  bool dirty[NBLK + 1];
  for (int id = 1; id <= NBLK; id++) { dirty[id] = verif_cbool(); if (dirty[id]) idx(t, (uint8_t)id)->setDirty(); else idx(t, (uint8_t)id)->unsetDirty(); }
  int32_t maxReorg = (int32_t)verif_choice(1, 2), preserve = (int32_t)verif_choice(0, 2);
  BtcIndex* tip = t.getBestChain().tip();
  uint8_t tipId = idOf(tip);
  int tipH = tip->getHeight();
  uint8_t chainAt[NBLK + 1] = {0};   // active chain ids by height (before)
  for (int id = tipId; id; id = parent[id]) chainAt[height[id]] = (uint8_t)id;
  t.BaseBlockTree<BtcBlock>::finalizeBlocks(maxReorg, preserve);
  verif_check(t.getBestChain().tip() == tip, 1);                                  // tip unchanged
  {
    const BtcIndex* fin = nullptr;
    for (auto* b : t.getBestChain()) if (b->finalized) fin = b;
    // known class (known_findings.txt): an UNSAVED fork tip that was outdated w.r.t. the first choice of final block is dropped from the
    // tip candidates, then the final block is moved down to its fork point (unsaved blocks are kept) and the tip is usable again but not reported
    for (int id = 2; id <= NBLK; id++) {
      auto* b = idx(t, (uint8_t)id);
      bool dirtyBranch = false;
      for (int x = id; x && chainAt[height[x]] != x; x = parent[x]) dirtyBranch = dirtyBranch || dirty[x];   // unsaved block on the fork branch
      if (b && fin && dirtyBranch && b->isValidTip() && !isBlockOutdated(*fin, *b) && t.getTips().count(b) == 0) verif_check(false, 90);
    }
    checkStructure(t, 100, fin);
  }
  if (tipH < maxReorg) { verif_check(t.getBlocks().size() == NBLK, 2); verif_cover(3); return; }   // too short: nothing happens
  // which block became final: chain[tipH - maxReorg], moved down to the lowest dirty ancestor (unsaved blocks are never dropped)
  int finalH = tipH - maxReorg;
  for (int h = finalH; h >= 0; h--) if (dirty[chainAt[h]]) finalH = h;
  // (outdated dirty forks may move it further down; the obligations below hold for the block the library chose)
  auto* root = t.getBestChain().first();
  verif_check(root != nullptr && root->pprev == nullptr, 3);
  int libFinalH = -1;
  for (auto* b : t.getBestChain()) if (b->finalized) libFinalH = b->getHeight();
  verif_check(libFinalH >= 0 && libFinalH <= finalH, 4);                          // a block on the active chain at or below the expected height is final
  verif_check(root->getHeight() == (libFinalH - preserve > 0 ? libFinalH - preserve : 0), 5);   // preserved window kept, nothing more
  for (int h = root->getHeight(); h <= tipH; h++) verif_check(idx(t, chainAt[h]) == t.getBestChain()[h], 6);   // active chain = old chain from the new root
  for (auto* b : t.getBlocks()) {
    auto* w = b; while (w->pprev) w = w->pprev;
    verif_check(w == root, 7);                                                    // every surviving block connects to the new root
    bool onChainBelowFinal = t.getBestChain().contains(b) && b->getHeight() <= libFinalH;
    verif_check(b->finalized == onChainBelowFinal, 8);                            // finalized exactly on root..final
  }
  for (auto* tp : t.getTips()) verif_check(!isBlockOutdated(*t.getBestChain()[libFinalH], *tp), 9);   // no outdated tip candidate survives
  for (int id = 1; id <= NBLK; id++) if (dirty[id]) verif_check(t.findBlockIndex(btcHash((uint8_t)id)) != nullptr, 10);   // unsaved blocks are never deallocated
  verif_check(t.appliedBlockCount == t.getBestChain().blocksCount(), 11);
  verif_cover(1);
  if (t.getBlocks().size() < NBLK) verif_cover(2);                                // something was really deallocated
  // ---- afterwards: one more header anywhere (also forking below the final block, if such a block survived) + an invalidation
  if (preserve != 0) return;   // BlockTree<BtcBlock> is work-based: with the real BTC parameters (preserve window 0) nothing below the final block survives
  uint8_t par = (uint8_t)verif_choice(1, NBLK);
  ValidationState st;
  bool parentKnown = idx(t, par) != nullptr;
  bool ok = t.acceptBlockHeader(mkBtc(NBLK + 1, par, 1000 + 10 * (NBLK + 1)), st);
  verif_check(ok == (parentKnown && idx(t, par)->isValid()), 12);
  checkStructure(t, 200, t.getBestChain()[libFinalH]);
  verif_check(t.getBestChain().contains(t.getBestChain()[libFinalH]) && t.getBestChain()[libFinalH] != nullptr && t.getBestChain()[libFinalH]->finalized, 13);
  if (!parentKnown) verif_cover(4);

#endif
}
