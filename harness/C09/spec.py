import os, sys
sys.path.insert(0, os.path.join(os.path.dirname(os.path.abspath(__file__)), '..', 'common'))
import srcsets_tree
HARNESSES = [
    {'name': 'h_outdated', 'src': 'C09/h_fin.cpp', 'entry': 'h_fin', 'repo_srcs': srcsets_tree.BTC_TREE, 'defines': ['MODE_OUTDATED'], 'covers': [1, 2], 'jobs': 8,
     'obligations': ['isBlockOutdated(final, c) == c is neither the final block nor one of its descendants — for every tree shape and every pair of blocks'],
     'rungs': {'quick': [{'defines': ['NBLK=5'], 'bound': 'every tree shape on 5 blocks x every (final, candidate) pair', 'timeout': 200}],
               'thorough': [{'defines': ['NBLK=7'], 'bound': 'every tree shape on 7 blocks', 'timeout': 2400, 'jobs': 16}, {'defines': ['NBLK=6'], 'bound': '6 blocks', 'timeout': 600, 'jobs': 16}]}},
    {'name': 'h_fin', 'src': 'C09/h_fin.cpp', 'entry': 'h_fin', 'repo_srcs': srcsets_tree.BTC_TREE, 'defines': ['MODE_FIN'], 'covers': [1, 2, 3], 'jobs': 16,
     'obligations': ['finalizeBlocks: tip unchanged; active chain = old chain from the new root; preserved window kept exactly; every surviving block connects to the new root; finalized flag exactly on root..final; no outdated tip candidate survives; unsaved (dirty) blocks are never deallocated',
                     'after finalization: header acceptance / structure invariants still hold, the final block stays on the best chain, no freed block index is touched (engine use-after-free check)'],
     'rungs': {'quick': [{'defines': ['NBLK=5'], 'bound': 'every tree shape on 5 blocks x every dirty set x maxReorg 1..2 x preserve 0..2, then one more header on any block', 'timeout': 280}],
               'thorough': [{'defines': ['NBLK=6'], 'bound': 'every tree shape on 6 blocks, otherwise as quick', 'timeout': 3000}]}},
    {'name': 'h_toyfin', 'src': 'C09/h_toyfin.cpp', 'entry': 'h_toyfin', 'repo_srcs': srcsets_tree.BTC_TREE + ['src/pop/blockchain/pop/fork_resolution.cpp'], 'covers': [1, 2, 3], 'jobs': 8,
     'obligations': ['F-TT: after finalizeBlocks with a preserved window the real POP-aware comparator returns > 0 for every candidate that forks off below the final block (all keystone geometries), and the active chain keeps the final block',
                     'F-TT: for candidates forking at or above the final block a finalizing instance and a never-finalizing twin give the same verdict'],
     'rungs': {'quick': [{'defines': ['LCH=4'], 'bound': 'main chain of 4 blocks, fork of 1..2 blocks at any height, keystone interval 1..3 or 10, maxReorg 1..2, preserve 0..2', 'timeout': 250}],
               'thorough': [{'defines': ['LCH=6'], 'bound': 'main chain of 6 blocks, otherwise as quick', 'timeout': 1500}]}},
]
import importlib.util as _ilu
_rp = _ilu.spec_from_file_location('realspec', os.path.join(os.path.dirname(os.path.abspath(__file__)), '..', 'real', 'spec.py'))
_real = _ilu.module_from_spec(_rp); _rp.loader.exec_module(_real)
HARNESSES += _real.FIN_HARNESSES
EXPLANATION = 'Finalization of the real BaseBlockTree is executed on every bounded tree, dirty set and parameter choice; block indices are really deallocated, so the engine checks every later access for use-after-free.'
ASSUMPTIONS = ['h_fin uses the BTC instantiation (work-based fork resolution); the POP-aware TIP_IS_FINAL short-cuts are decided by h_toyfin on the F-TT system',
               'the three-tree cascade AltBlockTree -> VbkBlockTree -> BTC finalizeBlocks, payload-id retention for duplicate detection and the aggressive-vs-never-finalizing twin are outside']
