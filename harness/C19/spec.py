import os, importlib.util as _ilu
_sp = _ilu.spec_from_file_location('c02spec', os.path.join(os.path.dirname(os.path.abspath(__file__)), '..', 'C02', 'spec.py'))
_c02 = _ilu.module_from_spec(_sp); _sp.loader.exec_module(_c02)
import copy
h = copy.deepcopy(_c02.HARNESSES[0])
h['obligations'] = ['every endorsement that follows the rules (any endorsed ancestor incl. the bootstrap block, any containing block within the settlement interval, block of proof delivered before) is accepted: setState succeeds exactly when the independent specification says the chain is valid',
                    'no VBK_ASSERT is reachable in apply / unapply / comparePopScore for any explored history (engine built-in obligation)']
_rp = _ilu.spec_from_file_location('realspec', os.path.join(os.path.dirname(os.path.abspath(__file__)), '..', 'real', 'spec.py'))
_real = _ilu.module_from_spec(_rp); _rp.loader.exec_module(_real)
HARNESSES = [h] + copy.deepcopy([x for x in _real.HARNESSES if x['name'] == 'h_real'] + [x for x in _real.MEMPOOL_HARNESSES if x['name'] in ('h_mempool_submit', 'h_mempool_timely', 'h_mempool_pair')])
EXPLANATION = _c02.EXPLANATION
ASSUMPTIONS = _real.ASSUMPTIONS + _c02.ASSUMPTIONS + ['MockMiner, signature construction and payouts are outside; mempool delivery is covered for the 5-payload universe of h_mempool_submit (every submission order of length 3: an honest ATV and VTB pass the stateless checks, are offered once their context was submitted, and the block carrying them activates)']
