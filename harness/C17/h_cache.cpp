// C17 (sequential obligations): cache transparency and memo invalidation.
//  MODE_LFRU: real SmallLFRUCache<uint64,uint64,CSIZE> under an arbitrary non-decreasing clock: for every request sequence the value
//             returned for key k equals factory(k) of a pure factory (the cache never changes what a lookup returns).
//  MODE_REUSE: decoding into an object that already carries a memoised hash never leaves the old hash behind.
//  MODE_MEMO: every VbkBlock / BtcBlock setter empties the memoised hash (a stale precomputed hash is never served).
#include <veriblock/pop/cache/small_lfru_cache.hpp>
#include <veriblock/pop/entities/btcblock.hpp>
#include <veriblock/pop/entities/vbkblock.hpp>
#include <veriblock/pop/time.hpp>
#include <veriblock/pop/serde.hpp>
using namespace altintegration;
#ifndef CSIZE
#define CSIZE 2
#endif
#ifndef NREQ
#define NREQ 4
#endif
static uint64_t pureFactory(uint64_t k) { return k * 1000003ull + 17; }   // any pure function of the key
extern "C" __attribute__((noinline)) void h_cache() {
#if defined(MODE_LFRU)
  auto& c = *new cache::SmallLFRUCache<uint64_t, uint64_t, CSIZE, 10>();
  uint32_t now = 1000;
  int calls = 0;
  for (int i = 0; i < NREQ; i++) {
    now += verif_range(0, 12);               // arbitrary non-decreasing clock (crosses the 10 s time window)
    setMockTime(now);
    uint32_t op = verif_range(0, 7);
    if (op == 0) { c.clear(); verif_cover(3); continue; }
    uint64_t k = verif_range(0, CSIZE + 1);
    auto v = c.getOrDefault(k, [&]() { calls++; return std::make_shared<uint64_t>(pureFactory(k)); });
    verif_check(v != nullptr && *v == pureFactory(k), 1);     // transparent: same answer as computing from scratch
  }
  if (calls < NREQ) verif_cover(1);                             // some request was really served from the cache
  if (calls > CSIZE) verif_cover(2);                            // some entry was really evicted / recomputed
#elif defined(MODE_MEMO)
  {
    VbkBlock b;
    uint8_t pre[24]; for (int i = 0; i < 24; i++) { pre[i] = nondet_u8(); ((uint8_t*)b.hash_.data())[i] = pre[i]; }   // a precomputed hash is cached
    uint32_t op = verif_choice(0, 8);
    switch (op) {
      case 0: b.setNonce(nondet_u64()); break;
      case 1: b.setHeight((int32_t)nondet_u32()); break;
      case 2: b.setVersion((int16_t)nondet_u16()); break;
      case 3: { uint96 x; ((uint8_t*)x.data())[0] = nondet_u8(); b.setPreviousBlock(x); break; }
      case 4: { VbkBlock::keystone_t x; ((uint8_t*)x.data())[0] = nondet_u8(); b.setPreviousKeystone(x); break; }
      case 5: { VbkBlock::keystone_t x; ((uint8_t*)x.data())[0] = nondet_u8(); b.setSecondPreviousKeystone(x); break; }
      case 6: { uint128 x; ((uint8_t*)x.data())[0] = nondet_u8(); b.setMerkleRoot(x); break; }
      case 7: b.setTimestamp(nondet_u32()); break;
      default: b.setDifficulty((int32_t)nondet_u32()); break;
    }
    uint8_t nz = 0; for (int i = 0; i < 24; i++) nz |= b.hash_.data()[i];
    verif_check(nz == 0, 1 + (int)op);     // memo emptied: the next getHash() recomputes
    verif_cover(1 + (int)op);
  }
  {
    BtcBlock b;
    for (int i = 0; i < 32; i++) ((uint8_t*)b.hash_.data())[i] = nondet_u8();
    uint32_t op = verif_choice(0, 5);
    switch (op) {
      case 0: b.setVersion(nondet_u32()); break;
      case 1: { uint256 x; ((uint8_t*)x.data())[0] = nondet_u8(); b.setPreviousBlock(x); break; }
      case 2: { uint256 x; ((uint8_t*)x.data())[0] = nondet_u8(); b.setMerkleRoot(x); break; }
      case 3: b.setTimestamp(nondet_u32()); break;
      case 4: b.setDifficulty(nondet_u32()); break;
      default: b.setNonce(nondet_u32()); break;
    }
    uint8_t nz = 0; for (int i = 0; i < 32; i++) nz |= b.hash_.data()[i];
    verif_check(nz == 0, 20 + (int)op);
  }
#elif defined(MODE_REUSE)
  // an object that already carries a memoised hash is REUSED as the output of a decoder: afterwards the memo is the precalculated
  // hash handed to the decoder, or empty (recomputed on demand) - never the hash of the previous header
  {
    VbkBlock src; src.setHeight((int32_t)nondet_u32()); src.setNonce(nondet_u64() & 0xffffffffffull); src.setTimestamp(nondet_u32());
    auto& w = *new WriteStream(); bool enc = verif_cbool();
    if (enc) src.toVbkEncoding(w); else src.toRaw(w);
    VbkBlock out;
    for (int i = 0; i < 24; i++) ((uint8_t*)out.hash_.data())[i] = nondet_u8();                 // stale memo of an earlier header
    bool withPre = verif_cbool();
    VbkBlock::hash_t pre; if (withPre) { for (int i = 0; i < 24; i++) ((uint8_t*)pre.data())[i] = nondet_u8(); uint8_t nz = 0; for (int i = 0; i < 24; i++) nz |= pre.data()[i]; verif_assume(nz != 0); }
    ReadStream rs(w.data()); auto& st = *new ValidationState();
    bool ok = enc ? DeserializeFromVbkEncoding(rs, out, st, pre) : DeserializeFromRaw(rs, out, st, pre);
    verif_check(ok && out.getHeight() == src.getHeight() && out.getNonce() == src.getNonce(), 1);
    uint8_t d = 0, z = 0; for (int i = 0; i < 24; i++) { d |= (uint8_t)(out.hash_.data()[i] ^ pre.data()[i]); z |= out.hash_.data()[i]; }   // pre is all-zero when none was given
    verif_check(d == 0 || z == 0, 2);                                                                   // the handed-in hash, or an empty memo (recomputed on demand)
    verif_cover(withPre ? 1 : 2);
  }
  {
    BtcBlock src; src.setVersion(nondet_u32()); src.setNonce(nondet_u32()); src.setTimestamp(nondet_u32());
    auto& w = *new WriteStream(); bool enc = verif_cbool();
    if (enc) src.toVbkEncoding(w); else src.toRaw(w);
    BtcBlock out;
    for (int i = 0; i < 32; i++) ((uint8_t*)out.hash_.data())[i] = nondet_u8();
    bool withPre = verif_cbool();
    BtcBlock::hash_t pre; if (withPre) { for (int i = 0; i < 32; i++) ((uint8_t*)pre.data())[i] = nondet_u8(); uint8_t nz = 0; for (int i = 0; i < 32; i++) nz |= pre.data()[i]; verif_assume(nz != 0); }
    ReadStream rs(w.data()); auto& st = *new ValidationState();
    bool ok = enc ? DeserializeFromVbkEncoding(rs, out, st, pre) : DeserializeFromRaw(rs, out, st, pre);
    verif_check(ok && out.getVersion() == src.getVersion() && out.getNonce() == src.getNonce(), 3);
    uint8_t d = 0, z = 0; for (int i = 0; i < 32; i++) { d |= (uint8_t)(out.hash_.data()[i] ^ pre.data()[i]); z |= out.hash_.data()[i]; }
    verif_check(d == 0 || z == 0, 4);   // (BtcBlock's VBK-encoding decoder drops the handed-in hash - it is recomputed later, which costs time but is pure)
    verif_cover(withPre ? 3 : 4);
  }
#else
#error mode
#endif
}
