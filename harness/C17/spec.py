import os, sys
sys.path.insert(0, os.path.join(os.path.dirname(os.path.abspath(__file__)), '..', 'common'))
import srcsets
HARNESSES = [
    {'name': 'h_lfru', 'src': 'C17/h_cache.cpp', 'entry': 'h_cache', 'repo_srcs': srcsets.SERDE, 'defines': ['MODE_LFRU'], 'covers': [1, 2, 3], 'jobs': 16,
     'obligations': ['SmallLFRUCache (the progpow epoch / light cache container): for every request/clear sequence under an arbitrary non-decreasing clock, the value returned for key k equals factory(k) of a pure factory, across evictions by frequency and by time window'],
     'rungs': {'quick': [{'defines': ['CSIZE=2', 'NREQ=4'], 'bound': 'capacity 2, every sequence of 4 operations (lookup of keys 0..3 or clear), clock steps 0..12 s (window 10 s)', 'timeout': 250}],
               'thorough': [{'defines': ['CSIZE=3', 'NREQ=5'], 'bound': 'capacity 3, every sequence of 5 operations, keys 0..4', 'timeout': 3000}, {'defines': ['CSIZE=2', 'NREQ=5'], 'bound': 'capacity 2, 5 operations', 'timeout': 1500}]}},
    {'name': 'h_memo', 'src': 'C17/h_cache.cpp', 'entry': 'h_cache', 'repo_srcs': srcsets.SERDE, 'defines': ['MODE_MEMO'], 'covers': [1, 2, 3, 4, 5, 6, 7, 8, 9], 'jobs': 4,
     'obligations': ['every VbkBlock setter (nonce, height, version, previous block, both keystones, merkle root, timestamp, difficulty) and every BtcBlock setter empties the memoised hash, so a header change always changes what getHash() is computed from'],
     'rungs': {'quick': [{'bound': 'all field values (symbolic), arbitrary pre-set memo', 'timeout': 120}], 'thorough': [{'bound': 'as quick', 'timeout': 300}]}},
    {'name': 'h_reuse', 'src': 'C17/h_cache.cpp', 'entry': 'h_cache', 'repo_srcs': srcsets.SERDE, 'defines': ['MODE_REUSE'], 'covers': [1, 2, 3, 4], 'jobs': 4,
     'obligations': ['decoding a VbkBlock / BtcBlock (raw and VBK encoding, with and without a precalculated hash) INTO an object that already carries a memoised hash leaves the precalculated hash, or an empty memo, never the hash of the previous header'],
     'rungs': {'quick': [{'bound': 'symbolic header fields, arbitrary stale memo, arbitrary non-zero precalculated hash', 'timeout': 150}], 'thorough': [{'bound': 'as quick', 'timeout': 300}]}},
]
EXPLANATION = 'SEQUENTIAL obligations only: transparency of the small LFRU cache container used by progPowHash and invalidation of the header hash memo.'
ASSUMPTIONS = ['concurrent requests and the ethash/progpow computations themselves (DAG generation, KISS99 mixing: whole-input hashing loops) are NOT covered by this technique family',
               'the lru11::Cache header LRU is not covered yet']
