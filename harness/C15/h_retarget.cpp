// C15 H-RETARGET: BTC difficulty retargeting at an interval boundary (calculateNextWorkRequired through the real
// getNextWorkRequired and through acceptBlockHeader) == independent 256-bit reference:
//   new = old_target * clamp(actual_timespan, T/4, 4T) / T, capped at the pow limit, re-encoded in compact form.
// Parameter set: timespan TS (default 40 s), spacing TS/4 (interval 4).  Timestamps are case-split (long division forks per
// quotient bit).  The thorough tier repeats the harness with other timespans (-DTS=60, -DTS=44): other divisors and clamps.
#include "common/btc_env.hpp"
using namespace vh;
#ifndef TS
#define TS 40
#endif
#ifndef NI
#define NI 4   // blocks per retarget interval
#endif
#define SP (TS / NI)
struct RP : BtcChainParamsRegTest {
  bool allowMin = false;
  uint32_t getPowTargetTimespan() const noexcept override { return TS; }
  uint32_t getPowTargetSpacing() const noexcept override { return SP; }
  bool getPowNoRetargeting() const noexcept override { return false; }
  bool getAllowMinDifficultyBlocks() const noexcept override { return allowMin; }
  uint256 getPowLimit() const override { return uint256::fromHex("00000000000000000000000000000000000000000000000000000000ffff7f00"); }  // == target of 0x1f7fffff, so the cap is reachable without the 256-bit product wrapping
  RP() { mMaxReorgBlocks = 10; }
};
static BtcBlock mk(uint8_t id, uint8_t prev, uint32_t t, uint32_t bits) {   // id in the least significant hash byte: every preset hash satisfies every target used here
  BtcBlock b; b.version = 1; ((uint8_t*)b.previousBlock.data())[31] = prev; b.timestamp = t; b.bits = bits; b.nonce = id; ((uint8_t*)b.hash_.data())[31] = id; return b;
}
struct R256 { uint8_t b[32]; };
static R256 refSetCompact(uint32_t c) { unsigned n = c >> 24; uint32_t w = c & 0x007fffff; R256 r; for (int i = 0; i < 32; i++) r.b[i] = 0; if (n <= 3) { w >>= 8 * (3 - n); r.b[0] = (uint8_t)w; r.b[1] = (uint8_t)(w >> 8); r.b[2] = (uint8_t)(w >> 16); } else for (int k = 0; k < 3; k++) { unsigned p = n - 3 + k; if (p < 32) r.b[p] = (uint8_t)(w >> (8 * k)); } return r; }
static unsigned rbits(const R256& x) { for (int i = 255; i >= 0; i--) if ((x.b[i / 8] >> (i % 8)) & 1) return (unsigned)i + 1; return 0; }
static uint32_t refGetCompact(const R256& x) { unsigned n = (rbits(x) + 7) / 8; uint32_t c; if (n <= 3) { c = (uint32_t)x.b[0] | ((uint32_t)x.b[1] << 8) | ((uint32_t)x.b[2] << 16); c <<= 8 * (3 - n); } else c = (uint32_t)x.b[n - 3] | ((uint32_t)x.b[n - 2] << 8) | ((uint32_t)x.b[n - 1] << 16); if (c & 0x00800000) { c >>= 8; n++; } return c | (n << 24); }
static R256 rmul32(const R256& x, uint32_t m, bool& ovf) { R256 r; uint64_t c = 0; for (int i = 0; i < 32; i++) { uint64_t p = (uint64_t)x.b[i] * m + c; r.b[i] = (uint8_t)p; c = p >> 8; } ovf = c != 0; return r; }
static R256 rdiv32(const R256& x, uint32_t d) { R256 r; uint64_t rem = 0; for (int i = 31; i >= 0; i--) { uint64_t cur = (rem << 8) | x.b[i]; r.b[i] = (uint8_t)(cur / d); rem = cur % d; } return r; }
static int rcmp(const R256& x, const R256& y) { for (int i = 31; i >= 0; i--) if (x.b[i] != y.b[i]) return x.b[i] < y.b[i] ? -1 : 1; return 0; }
extern "C" __attribute__((noinline)) void h_retarget() {
  auto& p = *new RP();
  p.allowMin = verif_cbool();                                                  // testnet/regtest min-difficulty rule on or off
  auto& t = newBtcTree(p);
  setMockTime(100000);
  const uint32_t LIMIT = 0x1f7fffff;
  uint32_t bits[NI + 2]; uint32_t times[NI + 2];
#ifdef MOREBITS   // thorough: a mantissa whose products cross the compact sign-bit normalisation (0x00800000), a little over a quarter of the limit (capped from 3.25 timespans on), a full mantissa one exponent below
  bits[0] = verif_cbool() ? 0x1e008000 : (verif_cbool() ? 0x1f280000 : 0x1e7fffff);
#else
  bits[0] = verif_cbool() ? LIMIT : (verif_cbool() ? 0x1f3fffff : 0x1e0fffff);   // the limit, half of it (a slow period is capped at the limit), a much harder one
#endif
  times[0] = 1000;
  t.bootstrapWithGenesis(mk(1, 0, times[0], bits[0]));
  for (int h = 1; h <= NI - 1; h++) {                                               // heights 1..3: inside the interval
    times[h] = times[h - 1] + verif_choice(0, 6) * SP;                         // 0..6 spacings per block: actual timespan 0..18 spacings reaches both clamps (T/4 and 4T)
    uint32_t want;
    if (p.allowMin && times[h] > times[h - 1] + 2 * SP) want = LIMIT;
    else if (p.allowMin) { int k = h - 1; while (k > 0 && k % NI != 0 && bits[k] == LIMIT) k--; want = bits[k]; }
    else want = bits[h - 1];
    bits[h] = want;
    BtcBlock nb = mk((uint8_t)(h + 1), (uint8_t)h, times[h], want);
    verif_check(getNextWorkRequired(*t.getBestChain().tip(), nb, static_cast<const BtcChainParams&>(p)) == want, 1);
    ValidationState st;
    verif_check(t.acceptBlockHeader(nb, st), 5);
  }
  uint32_t actual = times[NI - 1] - times[0];
  if (actual < TS / 4) actual = TS / 4;
  if (actual > 4 * TS) actual = 4 * TS;
  bool ovf = false;
  R256 n = rdiv32(rmul32(refSetCompact(bits[NI - 1]), actual, ovf), TS);
  R256 limit = refSetCompact(LIMIT);
  if (ovf || rcmp(n, limit) > 0) n = limit;
  uint32_t expect = refGetCompact(n);
  BtcBlock next = mk(NI + 1, NI, times[NI - 1] + SP, expect);
  uint32_t got = getNextWorkRequired(*t.getBestChain().tip(), next, static_cast<const BtcChainParams&>(p));
  verif_check(got == expect, 2);                                               // prescribed difficulty == reference
  ValidationState st;
  verif_check(t.acceptBlockHeader(next, st), 3);                               // a header carrying it is accepted
  ValidationState st2;
  verif_check(!t.acceptBlockHeader(mk(NI + 2, NI, times[NI - 1] + SP, expect ^ 1), st2), 4);  // any other difficulty is refused
  // ---- the first block of the NEW period (height 5): unchanged difficulty, or the min-difficulty rule seen from behind a
  // retarget block (the walk back stops at the retarget block even when it carries the pow-limit difficulty)
  bits[NI] = expect; times[NI] = times[NI - 1] + SP;
  times[NI + 1] = times[NI] + verif_choice(0, 3) * SP;
  uint32_t want5;
  if (p.allowMin && times[NI + 1] > times[NI] + 2 * SP) want5 = LIMIT;
  else if (p.allowMin) { int k = NI; while (k > 0 && k % NI != 0 && bits[k] == LIMIT) k--; want5 = bits[k]; }
  else want5 = bits[NI];
  BtcBlock b5 = mk(NI + 3, NI + 1, times[NI + 1], want5);
  verif_check(getNextWorkRequired(*t.getBestChain().tip(), b5, static_cast<const BtcChainParams&>(p)) == want5, 6);
  ValidationState st5;
  verif_check(t.acceptBlockHeader(b5, st5), 7);
  if (p.allowMin && expect == LIMIT && bits[NI - 1] != LIMIT && times[NI + 1] <= times[NI] + 2 * SP) verif_cover(6);
  if (actual == TS / 4) verif_cover(1);
  if (actual == 4 * TS) verif_cover(2);
  if (expect != bits[NI - 1]) verif_cover(3);
  if (rcmp(n, limit) == 0 && actual > TS) verif_cover(4);
  if (p.allowMin && bits[NI - 1] == LIMIT && bits[0] != LIMIT) verif_cover(5);
}
