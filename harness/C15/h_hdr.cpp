// C15 H-HDR: real BlockTree<BtcBlock>::acceptBlockHeader == independent rule set (connects to a known valid block, PoW,
// expected difficulty incl. the min-difficulty walk-back rule, median-time-past, future limit); chain work; best chain.
#include "common/btc_env.hpp"
using namespace vh;
#ifndef NCH
#define NCH 3
#endif
static const uint32_t LIMIT_BITS = 0x207fffff, HARD_BITS = 0x1f7fffff;
struct HP : BtcChainParamsRegTest {
  bool mind = false;
  uint32_t fut = 601;   // one time step: a header dated EXACTLY at the future limit occurs (and is allowed), one step later is refused
  bool getAllowMinDifficultyBlocks() const noexcept override { return mind; }
  uint32_t maxFutureBlockTime() const noexcept override { return fut; }
};
struct Rec { uint8_t parent; uint32_t time, bits; int height; bool valid; };
static Rec rec[16];
// hash_ holds the hash in display order: byte 0 is the MOST significant byte of the number compared with the target.
// Identity lives in byte 31; bytes 0..2 are the (symbolic) high bytes.
static uint256 hashOf(uint8_t id) { uint256 h; ((uint8_t*)h.data())[31] = id; return h; }
static BtcBlock mkHdr(uint8_t id, uint8_t prev, uint32_t t, uint32_t bits, uint8_t h0, uint8_t h1, uint8_t h2) {
  BtcBlock b;
  b.version = 1;
  if (prev) ((uint8_t*)b.previousBlock.data())[31] = prev;
  b.timestamp = t; b.bits = bits; b.nonce = id;
  uint8_t* h = (uint8_t*)b.hash_.data();
  h[31] = id; h[0] = h0; h[1] = h1; h[2] = h2;
  return b;
}
static BtcIndex* hidx(BtcTree& t, uint8_t id) { return t.getBlockIndex(hashOf(id)); }
static bool oraclePow(uint32_t bits, uint8_t h31, uint8_t h30, uint8_t h29, uint8_t id) {
  // number = big-endian bytes: 0,1,2 symbolic, 3..30 zero, 31 = id
  uint8_t t0, t1, t2, t3;
  if (bits == LIMIT_BITS) { t0 = 0x7f; t1 = 0xff; t2 = 0xff; t3 = 0; }
  else if (bits == HARD_BITS) { t0 = 0; t1 = 0x7f; t2 = 0xff; t3 = 0xff; }
  else return false;
  if (h31 != t0) return h31 < t0;
  if (h30 != t1) return h30 < t1;
  if (h29 != t2) return h29 < t2;
  if (0 != t3) return true;           // hash byte 3 is 0 < target byte 3
  return id == 0;                     // all remaining target bytes are 0, the hash has id (never 0) in its last byte
}
static uint32_t oracleBits(const HP& p, uint8_t prev, uint32_t newTime) {
  // interval = 2016: never at a retarget height in this harness
  if (!p.mind) return rec[prev].bits;
  if (newTime > rec[prev].time + 1200) return LIMIT_BITS;
  uint8_t i = prev;
  while (rec[i].parent != 0 && rec[i].bits == LIMIT_BITS) i = rec[i].parent;   // height % 2016 != 0 for all but genesis
  return rec[i].bits;
}
static int64_t oracleMtp(uint8_t prev) {
  int64_t v[11]; int n = 0;
  for (uint8_t i = prev; i != 0 && n < 11; i = rec[i].parent) v[n++] = rec[i].time;
  for (int a = 0; a < n; a++) for (int b = a + 1; b < n; b++) if (v[b] < v[a]) { int64_t x = v[a]; v[a] = v[b]; v[b] = x; }
  return v[n / 2];
}
static uint32_t symTime() { return 1000 + 601 * verif_range(0, 7); }
static uint32_t symBits() { return verif_cbool() ? LIMIT_BITS : HARD_BITS; }
extern "C" __attribute__((noinline)) void h_hdr() {
  auto& p = *new HP();
  p.mind = verif_cbool();
  auto& t = newBtcTree(p);
  uint32_t now = 1000 + 601 * verif_range(0, 7);
  setMockTime(now);
  // genesis with either difficulty (bootstrap blocks are not checked contextually)
  rec[1] = Rec{0, 1000, symBits(), 0, true};
  t.bootstrapWithGenesis(mkHdr(1, 0, 1000, rec[1].bits, 0, 0, 0));
  // a reachable chain: every header is offered to the real tree, and the harness keeps only accepted ones
  int n = 1;
  for (int id = 2; id <= NCH; id++) {
    uint8_t par = (uint8_t)verif_choice(1, n);
    uint32_t tm = symTime(), bits = symBits();
    ValidationState st;
    bool ok = t.acceptBlockHeader(mkHdr((uint8_t)(n + 1), par, tm, bits, 0, 0, 0), st);
    verif_assume(ok);
    n++;
    rec[n] = Rec{par, tm, bits, rec[par].height + 1, true};
  }
  if (verif_cbool()) {  // optionally one block was invalidated before
    uint8_t b = (uint8_t)verif_choice(2, n);
    t.invalidateSubtree(*hidx(t, b), BLOCK_FAILED_BLOCK);
    for (int i = 2; i <= n; i++) { uint8_t a = (uint8_t)i; while (a) { if (a == b) rec[i].valid = false; a = rec[a].parent; } }
    verif_cover(5);
  }
  BtcIndex* bestBefore = t.getBestChain().tip();
  ArithUint256 bestWorkBefore = bestBefore->chainWork;
  // the header under test
  uint8_t id = (uint8_t)(n + 1);
  uint8_t prev = verif_cbool() ? (uint8_t)verif_choice(1, n) : (uint8_t)200;
  uint32_t tm = symTime(), bits = symBits();
  uint8_t h31 = nondet_u8(), h30 = nondet_u8(), h29 = nondet_u8();
  BtcBlock hdr = mkHdr(id, prev, tm, bits, h31, h30, h29);
  ValidationState st;
  bool got = t.acceptBlockHeader(hdr, st);
  bool known = prev != 200;
  bool pow = oraclePow(bits, h31, h30, h29, id);
  bool expect = pow && known && bits == oracleBits(p, prev, tm) && (int64_t)tm >= oracleMtp(prev) && (int64_t)tm <= (int64_t)now + p.fut && rec[prev].valid;
  verif_check(got == expect, 1);      // accepted exactly when every rule holds
  verif_observe(got);
  if (!got) { verif_check(!st.IsValid(), 2); verif_cover(2); }
  if (!pow) verif_cover(3);
  if (known && pow && bits != oracleBits(p, prev, tm)) verif_cover(4);
  if (got) {
    verif_cover(1);
    auto* ni = t.getBlockIndex(hdr.getHash());
    verif_check(ni != nullptr && ni->pprev == hidx(t, prev) && ni->getHeight() == rec[prev].height + 1, 3);
    ArithUint256 w = hidx(t, prev)->chainWork;
    w += getBlockProof(hdr);
    verif_check(ni->chainWork == w, 4);                               // chain work accumulates
    verif_check(getBlockProof(hdr) > ArithUint256(0), 5);
    // most work wins, the earlier-seen chain wins ties
    BtcIndex* best = t.getBestChain().tip();
    if (ni->chainWork > bestWorkBefore) verif_check(best == ni, 6); else verif_check(best == bestBefore, 7);
    if (ni->chainWork == bestWorkBefore && ni != bestBefore) verif_cover(6);
  } else if (known && pow && bits == oracleBits(p, prev, tm) && (int64_t)tm >= oracleMtp(prev) && (int64_t)tm <= (int64_t)now + p.fut) {
    // refused only because the parent is invalid: the block is recorded and reported as failed
    auto* ni = t.findBlockIndex(hdr.getHash());
    verif_check(ni != nullptr && ni->hasFlags(BLOCK_FAILED_CHILD), 8);
    verif_cover(7);
  }
  checkStructure(t, 100);
}
