// C15 H-VBKHDR: real BlockTree<VbkBlock, VbkChainParams>::acceptBlockHeader == independent rule set:
// parent known and valid, proof of work (preset hash vs target), difficulty prescribed after the parent (regtest: no
// retargeting -> the parent's), timestamp >= median of the last <= 20 blocks (lower middle for even counts) and
// <= now + future limit, previous / second previous keystone references as the protocol prescribes (keystone interval 3).
#include <veriblock/pop/blockchain/blocktree.hpp>
#include <veriblock/pop/blockchain/pop/vbk_block_tree.hpp>
#include <veriblock/pop/blockchain/miner.hpp>
#include <veriblock/pop/blockchain/vbk_blockchain_util.hpp>
#include <veriblock/pop/blockchain/vbk_chain_params.hpp>
#include <veriblock/pop/bootstraps.hpp>
#include <veriblock/pop/storage/block_reader.hpp>
#include <veriblock/pop/time.hpp>
using namespace altintegration;
#ifndef NCH
#define NCH 5
#endif
struct VP : VbkChainParamsRegTest {
  uint32_t getKeystoneInterval() const noexcept override { return 3; }
};
typedef BlockTree<VbkBlock, VbkChainParams> Tree;
typedef BlockIndex<VbkBlock> Index;
struct Rec { int parent; uint32_t time; int32_t diff; int height; uint8_t hash[24]; };
static Rec rec[NCH + 3];
static void setHash(VbkBlock& b, uint8_t id) { for (int i = 0; i < 24; i++) ((uint8_t*)b.hash_.data())[i] = 0; ((uint8_t*)b.hash_.data())[23] = id; ((uint8_t*)b.hash_.data())[14] = (uint8_t)(id * 7 + 1); }
static void expectedKeystones(int prev, uint8_t* k1, uint8_t* k2) {
  // protocol: the previous keystone is the most recent keystone at or below (parent height - 1 ... ) as the template rule states:
  // diff = parentHeight % ki, 0 -> ki; keystone at parentHeight - diff if that height exists, second keystone one interval lower
  int ki = 3, h = rec[prev].height;
  int diff = h % ki; if (diff == 0) diff = ki;
  for (int i = 0; i < 9; i++) { k1[i] = 0; k2[i] = 0; }
  int id1 = 0, id2 = 0;
  if (diff <= h) { int x = prev; while (rec[x].height > h - diff) x = rec[x].parent; id1 = x; }
  if (diff + ki <= h) { int x = prev; while (rec[x].height > h - diff - ki) x = rec[x].parent; id2 = x; }
  if (id1) for (int i = 0; i < 9; i++) k1[i] = rec[id1].hash[15 + i];
  if (id2) for (int i = 0; i < 9; i++) k2[i] = rec[id2].hash[15 + i];
}
static int64_t medianTime(int prev) {
  int64_t v[20]; int n = 0;
  for (int x = prev; x != 0 && n < 20; x = rec[x].parent) v[n++] = rec[x].time;
  for (int a = 0; a < n; a++) for (int b = a + 1; b < n; b++) if (v[b] < v[a]) { int64_t t = v[a]; v[a] = v[b]; v[b] = t; }
  return v[n % 2 == 0 ? n / 2 - 1 : n / 2];
}
extern "C" __attribute__((noinline)) void h_vbkhdr() {
  auto& p = *new VP();
  auto& reader = *(const BlockReader*)(new uint64_t[8]());
  auto& t = *new Tree(p, reader);
  uint32_t now = 1700000000;
  setMockTime(now);
  VbkBlock g = GetRegTestVbkBlock();
  setHash(g, 1);
  t.bootstrapWithGenesis(g);
  rec[1].parent = 0; rec[1].time = g.getTimestamp(); rec[1].diff = g.getDifficulty(); rec[1].height = 0;
  for (int i = 0; i < 24; i++) rec[1].hash[i] = g.getHash().data()[i];
  Miner<VbkBlock, VbkChainParams> miner(p);
  // a valid chain with symbolic (accepted) timestamps and a symbolic fork point
  int n = 1;
  for (int id = 2; id <= NCH; id++) {
    int par = (int)verif_choice(id == NCH ? 1 : id - 1, id - 1);   // the last block may fork anywhere
    Index* tip = t.getBlockIndex(Blob<24>(std::vector<uint8_t>(rec[par].hash, rec[par].hash + 24)));
    VbkBlock b = miner.getBlockTemplate(*tip, uint128());
    b.timestamp = rec[par].time + verif_range(0, 3) - 1;            // may go slightly backwards
    setHash(b, (uint8_t)id);
    ValidationState st;
    verif_assume(t.acceptBlockHeader(b, st));
    rec[id].parent = par; rec[id].time = b.timestamp; rec[id].diff = b.difficulty; rec[id].height = rec[par].height + 1;
    for (int i = 0; i < 24; i++) rec[id].hash[i] = b.getHash().data()[i];
    n = id;
  }
  // header under test
  bool known = verif_cbool();
  int prev = (int)verif_choice(1, n);
  VbkBlock h;
  h.version = 2; h.height = rec[prev].height + 1; h.nonce = 99;
  for (int i = 0; i < 12; i++) ((uint8_t*)h.previousBlock.data())[i] = rec[prev].hash[12 + i];
  if (!known) ((uint8_t*)h.previousBlock.data())[0] ^= 0x55;
  uint8_t k1[9], k2[9];
  expectedKeystones(prev, k1, k2);
  uint8_t m1 = nondet_u8(), m2 = nondet_u8();                        // keystone mutations (0 = as prescribed)
  for (int i = 0; i < 9; i++) { ((uint8_t*)h.previousKeystone.data())[i] = k1[i]; ((uint8_t*)h.secondPreviousKeystone.data())[i] = k2[i]; }
  ((uint8_t*)h.previousKeystone.data())[8] ^= m1;
  ((uint8_t*)h.secondPreviousKeystone.data())[8] ^= m2;
  int64_t med = medianTime(prev);
  uint32_t tsel = verif_choice(0, 3);
  h.timestamp = tsel == 0 ? (uint32_t)(med - 1) : tsel == 1 ? (uint32_t)med : tsel == 2 ? now + p.maxFutureBlockTime() : now + p.maxFutureBlockTime() + 1;
  uint32_t dmut = verif_choice(0, 1);
  h.difficulty = rec[prev].diff + (int32_t)dmut;
  bool pow = true;   // regtest difficulty: target = max/1, every 192-bit hash meets it (PoW arithmetic is decided in C05 h_pow)
  setHash(h, 77);
  ValidationState st;
  bool got = t.acceptBlockHeader(h, st);
  bool expect = known && pow && dmut == 0 && m1 == 0 && m2 == 0 && (int64_t)h.timestamp >= med && (int64_t)h.timestamp <= (int64_t)now + p.maxFutureBlockTime();
  verif_check(got == expect, 1);
  if (got) {
    verif_cover(1);
    Index* ni = t.getBlockIndex(h.getHash());
    Index* pi = t.getBlockIndex(Blob<24>(std::vector<uint8_t>(rec[prev].hash, rec[prev].hash + 24)));
    verif_check(ni && ni->pprev == pi && ni->getHeight() == rec[prev].height + 1, 2);
    ArithUint256 w = pi->chainWork; w += getBlockProof(h);
    verif_check(ni->chainWork == w, 3);
    Index* best = t.getBestChain().tip();
    verif_check(!(best->chainWork < ni->chainWork), 4);             // the best chain has the most work
  } else { verif_check(!st.IsValid(), 5); verif_cover(2); }
  if (m1 && known && pow) verif_cover(3);
  if (tsel == 0 && known && pow) verif_cover(4);
  if (rec[prev].height >= 3 && got) verif_cover(5);                 // a real (non-zero) keystone reference was checked
}
