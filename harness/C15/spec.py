import os, sys
sys.path.insert(0, os.path.join(os.path.dirname(os.path.abspath(__file__)), '..', 'common'))
import srcsets_tree, srcsets_real
HARNESSES = [
    {'name': 'h_hdr', 'src': 'C15/h_hdr.cpp', 'entry': 'h_hdr', 'repo_srcs': srcsets_tree.BTC_TREE, 'covers': [1, 2, 3, 4, 5, 6, 7], 'jobs': 16,
     'obligations': ['BTC acceptBlockHeader accepts iff: parent known and valid, hash <= target(bits), bits == difficulty prescribed after the parent (incl. min-difficulty walk-back), time >= median-time-past, time <= now + future limit',
                     'accepted header: height/parent links, chainWork == parent work + block proof',
                     'best chain: strictly more work wins, the earlier-seen chain wins ties',
                     'header refused only for an invalid parent is recorded with BLOCK_FAILED_CHILD; structure invariants afterwards'],
     'rungs': {'quick': [{'defines': ['NCH=3'], 'bound': 'any reachable tree of 3 blocks (symbolic parents, 8 timestamps, 2 difficulties), symbolic clock, min-difficulty rule on/off, one symbolic header (3 symbolic hash bytes)', 'timeout': 250}],
               'thorough': [{'defines': ['NCH=5'], 'bound': 'any reachable tree of 5 blocks, otherwise as quick', 'timeout': 2400},
                            {'defines': ['NCH=4'], 'bound': 'any reachable tree of 4 blocks', 'timeout': 900}]}},
    {'name': 'h_vbkhdr', 'src': 'C15/h_vbkhdr.cpp', 'entry': 'h_vbkhdr', 'repo_srcs': srcsets_real.REAL, 'covers': [1, 2, 3, 4, 5], 'jobs': 16,
     'obligations': ['VBK acceptBlockHeader accepts iff: parent known, PoW, difficulty as prescribed (no retargeting: the parent\'s), time >= median of the last <=20 timestamps and <= now + limit, previous and second previous keystone references exactly as prescribed (interval 3)',
                     'accepted VBK header: links, height, chainWork == parent + proof, best chain has the most work'],
     'rungs': {'quick': [{'defines': ['NCH=5'], 'bound': 'valid VBK chain of 5 blocks (symbolic timestamps, last block may fork anywhere), header on any block with symbolic keystone mutations (2x8 bits), 4 timestamp choices around the limits, difficulty/parent/PoW mutations', 'timeout': 250}],
               'thorough': [{'defines': ['NCH=8'], 'bound': 'chain of 8 blocks, otherwise as quick', 'timeout': 2400}]}},
    {'name': 'h_retarget', 'src': 'C15/h_retarget.cpp', 'entry': 'h_retarget', 'repo_srcs': srcsets_tree.BTC_TREE, 'covers': [1, 2, 3, 4, 5, 6], 'jobs': 16,
     'obligations': ['BTC retarget at an interval boundary: getNextWorkRequired == old target * clamp(actual timespan, T/4, 4T) / T capped at the pow limit, in compact form (independent 256-bit reference); a header with that difficulty is accepted, any other refused; inside the interval and in the first block after the boundary the difficulty is unchanged, or follows the min-difficulty rule (pow-limit bits after a gap > 2 spacings, otherwise the last non-minimum difficulty) when the chain allows it'],
     'rungs': {'quick': [{'bound': 'interval 4 (timespan 40 s, spacing 10 s), pow limit lowered to the target of 0x1f7fffff so that the cap is reachable without the 256-bit product wrapping, three starting difficulties, min-difficulty rule on/off, block spacings 0..60 s in steps of 10, first block of the next period 0..30 s later (case split: 8232 patterns)', 'timeout': 250}],
               'thorough': [{'bound': 'as quick', 'timeout': 600}]}},
]
import copy as _copy
for _ts, _sp in ((60, 15), (44, 11)):                                        # other parameter sets of the same retarget code: thorough tier only
    _h = _copy.deepcopy(HARNESSES[2])
    _b = 'as h_retarget with timespan %d s, spacing %d s (clamps %d s / %d s, divisor %d)' % (_ts, _sp, _ts // 4, 4 * _ts, _ts)
    _h.update({'name': 'h_retarget%d' % _ts, 'tiers': ['thorough'], 'rungs': {'thorough': [{'defines': ['TS=%d' % _ts], 'bound': _b, 'timeout': 900}]}})
    HARNESSES.append(_h)
_h = _copy.deepcopy(HARNESSES[2])
_h.update({'name': 'h_retarget_bits', 'tiers': ['thorough'], 'rungs': {'thorough': [{'defines': ['MOREBITS'], 'bound': 'as h_retarget with starting difficulties 0x1e008000 (compact sign-bit normalisation), 0x1f280000 (a little over a quarter of the limit), 0x1e7fffff', 'timeout': 900}]}})
HARNESSES.append(_h)
_h = _copy.deepcopy(HARNESSES[2])
_h.update({'name': 'h_retarget_i5', 'tiers': ['thorough'], 'rungs': {'thorough': [{'defines': ['NI=5', 'TS=50'], 'bound': 'interval 5 (timespan 50 s, spacing 10 s; clamps 12 s (truncating T/4) / 200 s, divisor 50), otherwise as h_retarget (case split: 57624 patterns)', 'timeout': 1500}]}})
HARNESSES.append(_h)
EXPLANATION = 'Header acceptance of the real BTC tree is compared on every path with an independent implementation of the contextual rules written over plain integers.'
ASSUMPTIONS = ['h_hdr crosses no retarget boundary (interval 2016); h_retarget decides the boundary arithmetic on interval 4 with case-split timestamps (timespan 40 s; thorough also 60 s and 44 s; mainnet-size intervals use the same code with other parameters)', 'hash = 3 symbolic high bytes + id; SHA-256 not encoded', 'VBK retarget arithmetic (regtest does not retarget) and checkVbkBlockPlausibility are not covered']
