// C13 H-VSM: real ValueSortedMap<int,int> whose comparator ranks values by v>>2 (values that tie, like mempool payloads
// of equal VBK height). Every sequence of NOPS operations with symbolic keys/values; after every operation the two
// views must describe the same multiset, sizes agree, the sorted view is sorted.
#include <veriblock/pop/value_sorted_map.hpp>
using namespace altintegration;
static bool cmp(const int& a, const int& b) { return (a >> 2) < (b >> 2); }
#ifndef NOPS
#define NOPS 3
#endif
static void invariant(ValueSortedMap<int, int>& m, int id) {
  int q = (int)verif_range(0, 15);
  int cs = 0, cm = 0, ns = 0, nm = 0, prev = -1;
  bool sorted = true;
  for (auto& v : m.getSortedValues()) {
    if (v == q) cs++;
    ns++;
    if ((v >> 2) < prev) sorted = false;
    prev = v >> 2;
  }
  for (auto& p : m) {
    if (p.second == q) cm++;
    nm++;
  }
  verif_check(cs == cm, id);       // same multiset (for an arbitrary probe value q)
  verif_check(ns == nm, id + 1);   // same size
  verif_check(sorted, id + 2);     // sorted view is sorted
  verif_check((int)m.size() == nm, id + 3);
}
extern "C" __attribute__((noinline)) void h_vsm() {
  auto& m = *new ValueSortedMap<int, int>(cmp);  // leaked on purpose: destructors are not the subject
  for (int i = 0; i < NOPS; i++) {
    uint32_t op = verif_range(0, 3);
    int k = (int)verif_range(0, 3), v = (int)verif_range(0, 15);
    if (op == 0) { m.insert(k, v); verif_cover(1); }
    else if (op == 1) { m.erase(k); verif_cover(2); }
    else if (op == 2) { auto it = m.find(k); if (it != m.end()) { m.erase(it); verif_cover(3); } }
    else { m.clear(); verif_cover(4); }
    invariant(m, 10 * (i + 1));
    verif_observe(m.size());
  }
  auto it = m.find(1);
  verif_observe(it == m.end() ? 99 : it->second);
}
