import os, sys
HARNESSES = [
    {'name': 'h_vsm', 'src': 'C13/h_vsm.cpp', 'entry': 'h_vsm', 'repo_srcs': [], 'covers': [1, 2, 3, 4], 'jobs': 8,
     'obligations': ['ValueSortedMap: after every operation the sorted view and the key map hold the same multiset of values (arbitrary probe value)',
                     'ValueSortedMap: sizes agree and the sorted view is ordered',
                     'ValueSortedMap: no freed node is touched, no VBK_ASSERT fires (engine built-ins)'],
     'rungs': {'quick': [{'defines': ['NOPS=3'], 'bound': 'all sequences of 3 operations from {insert, erase(key), erase(iterator), clear}, keys 0..3, values 0..15 (ties by v>>2)', 'timeout': 110}],
               'thorough': [{'defines': ['NOPS=4'], 'bound': 'all sequences of 4 operations, keys 0..3, values 0..15', 'timeout': 1700, 'jobs': 16},
                            {'defines': ['NOPS=3'], 'bound': 'all sequences of 3 operations', 'timeout': 300}]}},
]
import importlib.util as _ilu
_rp = _ilu.spec_from_file_location('realspec', os.path.join(os.path.dirname(os.path.abspath(__file__)), '..', 'real', 'spec.py'))
_real = _ilu.module_from_spec(_rp); _rp.loader.exec_module(_real)
HARNESSES += _real.MEMPOOL_HARNESSES
EXPLANATION = 'The real ValueSortedMap template (with libstdc++ multiset/unordered_map code inlined from the headers) is executed symbolically over every bounded operation sequence.'
ASSUMPTIONS = ['MemPool itself (maps, relations, cleanUp) is outside this check: only its height-sorted container is decided']
