// C03 / C19 H-KS: every function of keystone_util.cpp against its arithmetic definition, for all heights in the bound
// (structurally narrow symbolic values) and every keystone interval 1..KIMAX (case split).
#include <veriblock/pop/keystone_util.hpp>
using namespace altintegration;
#ifndef KIMAX
#define KIMAX 8
#endif
#ifndef HMASK
#define HMASK 0x3ff
#endif
extern "C" __attribute__((noinline)) void h_ks() {
  uint32_t ki = verif_choice(1, KIMAX);
  int32_t h = (int32_t)(nondet_u16() & HMASK), g = (int32_t)(nondet_u16() & HMASK);
  // definitions over plain integers
  bool isKs = (h % (int32_t)ki) == 0;
  verif_check(isKeystone(h, ki) == isKs, 1);
  int32_t atOrBefore = h - (h % (int32_t)ki);                       // largest multiple of ki that is <= h
  verif_check(highestKeystoneAtOrBefore(h, ki) == atOrBefore, 2);
  verif_check(atOrBefore <= h && atOrBefore % (int32_t)ki == 0 && h - atOrBefore < (int32_t)ki, 3);
  int32_t after = atOrBefore + (int32_t)ki;                         // smallest multiple of ki that is > h
  verif_check(firstKeystoneAfter(h, ki) == after, 4);
  verif_check(blockHeightToKeystoneNumber(h, ki) == h / (int32_t)ki, 5);
  if (isKs) verif_check(highestBlockWhichConnectsKeystoneToPrevious(h, ki) == h + (int32_t)ki + 1, 6);
  bool crossed = (g / (int32_t)ki) > (h / (int32_t)ki);            // a multiple of ki lies in (h, g]
  verif_check(isCrossedKeystoneBoundary(h, g, ki) == crossed, 7);
  verif_check(areOnSameKeystoneInterval(h, g, ki) == ((h / (int32_t)ki) == (g / (int32_t)ki)), 8);
  // previous keystones of a block at height h (as referenced by its context info): the keystone strictly below the parent's
  // keystone-or-parent rule; n-th previous keystone n intervals further down, never negative
  for (uint32_t n = 0; n < 2; n++) {
    int32_t got = getPreviousKeystoneHeight(h, ki, n);
    int32_t exp;
    if ((uint32_t)h <= 1 + n * ki) exp = 0;
    else { int32_t base = ((h - 1) % (int32_t)ki == 0) ? h - 2 : h - 1; exp = base - (base % (int32_t)ki) - (int32_t)(n * ki); if (exp < 0) exp = 0; }
    verif_check(got == exp, 9 + (int)n);
    verif_check(got >= 0 && got % (int32_t)ki == 0 && (got < h || h == 0), 11);   // a keystone height below the block
  }
  verif_cover(1);
  if (crossed) verif_cover(2);
  if (isKs) verif_cover(3);
}
