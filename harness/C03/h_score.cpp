// C03 H-SCORE: the real internal::comparePopScoreImpl (with the real publicationViolatesFinality and
// getConsensusScoreFromRelativeBlockStartingAtZero) instantiated on an array-backed publication view, against an
// independent keystone-by-keystone scorer written from the protocol description (DESIGN.md appendix A).
#include "common/toy_env.hpp"
using namespace altintegration;
#ifndef KMAX
#define KMAX 3
#endif
#ifndef KMAXA
#define KMAXA KMAX
#endif
#ifndef HMAX
#define HMAX 15
#endif
struct Cfg {
  std::vector<uint32_t> table;
  uint32_t fd = 1;
  const std::vector<uint32_t>& getForkResolutionLookUpTable() const { return table; }
  uint32_t getFinalityDelay() const { return fd; }
};
static const int NONE = std::numeric_limits<int32_t>::max();
struct View {
  const Cfg* cfg; int ki, first, n; int pub[KMAX]; internal::KeystoneContext cur;
  const Cfg& getConfig() const { return *cfg; }
  bool empty() const { return n == 0; }
  int firstKeystone() const { return first; }
  int lastKeystone() const { return first + (n - 1) * ki; }
  int nextKeystoneAfter(int k) const { return k + ki; }
  const internal::KeystoneContext* getKeystone(int h) {
    if (h < firstKeystone() || h > lastKeystone()) return nullptr;
    cur.blockHeight = h;
    cur.firstBlockPublicationHeight = pub[(h - first) / ki];
    return &cur;
  }
};
static int64_t tbl(const Cfg& c, int64_t rel) { return (rel < 0 || rel >= (int64_t)c.table.size()) ? 0 : (int64_t)c.table[(size_t)rel]; }
// reference scorer (appendix A)
static int64_t refScore(const View& A, const View& B) {
  const Cfg& c = *A.cfg;
  if (A.n == 0 && B.n == 0) return 0;
  if (A.n == 0) return -1;
  if (B.n == 0) return 1;
  bool outA = false, outB = false;
  int64_t sA = 0, sB = 0, prevA = NONE, prevB = NONE;
  int last = A.n > B.n ? A.n : B.n;
  for (int k = 0; k < last; k++) {
    bool hasA = !outA && k < A.n, hasB = !outB && k < B.n;
    int64_t pA = hasA ? A.pub[k] : NONE, pB = hasB ? B.pub[k] : NONE;
    if (hasA && pA - prevA > (int64_t)c.fd) { outA = true; hasA = false; }
    prevA = pA;
    if (hasB && pB - prevB > (int64_t)c.fd) { outB = true; hasB = false; }
    prevB = pB;
    if (!hasA && !hasB) { if (outA && outB) break; continue; }
    if (!hasA) { sB += tbl(c, 0); outA = true; if (sB > sA) break; continue; }
    if (!hasB) { sA += tbl(c, 0); outB = true; if (sA > sB) break; continue; }
    int64_t e = pA < pB ? pA : pB;
    sA += tbl(c, pA - e);
    sB += tbl(c, pB - e);
    if (pA - pB > (int64_t)c.fd) outA = true;
    if (pB - pA > (int64_t)c.fd) outB = true;
  }
  return sA - sB;
}
static int sgn(int64_t x) { return x > 0 ? 1 : (x < 0 ? -1 : 0); }
extern "C" __attribute__((noinline)) void h_score() {
  auto& c = *new Cfg();
  uint32_t tn = verif_choice(1, 3);
#ifdef SYMTABLE
  for (uint32_t i = 0; i < tn; i++) c.table.push_back(verif_range(0, 100));
#else
  static const uint32_t fixedTable[3] = {100, 50, 25};   // three concrete tables: {100}, {100,50}, {100,50,25}
  for (uint32_t i = 0; i < tn; i++) c.table.push_back(fixedTable[i]);
#endif
  c.fd = verif_range(1, 12);
  int ki = (int)verif_choice(1, 2);
  View A, B;
  A.cfg = B.cfg = &c; A.ki = B.ki = ki; A.first = B.first = 4 * ki;
  A.n = (int)verif_choice(0, KMAXA); B.n = (int)verif_choice(0, KMAX);
#ifdef SPLIT_A
  for (int k = 0; k < A.n; k++) { uint32_t v = verif_choice(0, HMAX + 1); A.pub[k] = v > HMAX ? NONE : (int)v; }   // case split on A's profile
#else
  for (int k = 0; k < A.n; k++) { uint32_t v = verif_range(0, HMAX + 1); A.pub[k] = v > HMAX ? NONE : (int)v; }
#endif
  for (int k = 0; k < B.n; k++) { uint32_t v = verif_range(0, HMAX + 1); B.pub[k] = v > HMAX ? NONE : (int)v; }
  View A1 = A, B1 = B, A2 = A, B2 = B;
  int ab = internal::comparePopScoreImpl(A1, B1);
  int ba = internal::comparePopScoreImpl(B2, A2);
  int64_t ref = refScore(A, B);
  verif_check((int64_t)ab == ref, 1);        // verdict == protocol scoring
  verif_check(sgn(ab) == -sgn(ba), 2);       // antisymmetric when the roles are swapped
  if (A.n == 0 && B.n == 0) verif_check(ab == 0, 3);
  verif_observe((uint64_t)(int64_t)ab);
  if (ab > 0) verif_cover(1);
  if (ab < 0) verif_cover(2);
  if (ab == 0 && A.n > 0 && B.n > 0) verif_cover(3);
}
