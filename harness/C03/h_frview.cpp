// C03 H-VIEW / H-FR: end-to-end fork resolution on the F-TT system.  Two chains A and B fork at the bootstrap block; every
// ED block adds one block of a shared linear SP chain; NEND endorsements with symbolic containing / endorsed / block of proof.
// The verdict of the real comparator (ReducedPublicationView + getProtoKeystoneContext + getKeystoneContext +
// comparePopScoreImpl) is compared with the reference scorer applied to publication profiles computed by an independent
// integer specification of "which endorsements count".
#include "common/toy_env.hpp"
using namespace vt;
#ifndef NEND
#define NEND 2
#endif
#ifndef LMAX
#define LMAX 3
#endif
static const int NONE = std::numeric_limits<int32_t>::max();
struct End { int containing, endorsed, bop; };   // ED ids, bop = SP height (0 = SP genesis)
static int64_t tblv(const EdParams& p, int64_t rel) { return (rel < 0 || rel >= (int64_t)p.table.size()) ? 0 : (int64_t)p.table[(size_t)rel]; }
static int64_t refScore(const EdParams& c, int nA, const int* A, int nB, const int* B) {
  if (nA == 0 && nB == 0) return 0;
  if (nA == 0) return -1;
  if (nB == 0) return 1;
  bool outA = false, outB = false;
  int64_t sA = 0, sB = 0, prevA = NONE, prevB = NONE;
  int last = nA > nB ? nA : nB;
  for (int k = 0; k < last; k++) {
    bool hasA = !outA && k < nA, hasB = !outB && k < nB;
    int64_t pA = hasA ? A[k] : NONE, pB = hasB ? B[k] : NONE;
    if (hasA && pA - prevA > (int64_t)c.finalityDelay) { outA = true; hasA = false; }
    prevA = pA;
    if (hasB && pB - prevB > (int64_t)c.finalityDelay) { outB = true; hasB = false; }
    prevB = pB;
    if (!hasA && !hasB) { if (outA && outB) break; continue; }
    if (!hasA) { sB += tblv(c, 0); outA = true; if (sB > sA) break; continue; }
    if (!hasB) { sA += tblv(c, 0); outB = true; if (sA > sB) break; continue; }
    int64_t e = pA < pB ? pA : pB;
    sA += tblv(c, pA - e); sB += tblv(c, pB - e);
    if (pA - pB > (int64_t)c.finalityDelay) outA = true;
    if (pB - pA > (int64_t)c.finalityDelay) outB = true;
  }
  return sA - sB;
}
// publication profile of the chain made of ids chain[1..len] (heights 1..len) above the fork block (height 0)
static int profile(const World& w, const int* chain, int len, const End* ends, int nend, int ki, int* pub) {
  int first = ki, lastK = (len / ki) * ki, n = 0;
  for (int k = first; k <= lastK; k += ki) {
    int hi = k + ki + 1; if (hi > len) hi = len;
    int best = NONE;
    for (int e = 0; e < nend; e++) {
      if (ends[e].containing == 0) continue;
      bool contOn = false, endOn = false; int eh = -1;
      for (int h = 1; h <= len; h++) { if (chain[h] == ends[e].containing) contOn = true; if (chain[h] == ends[e].endorsed) { endOn = true; eh = h; } }
      if (!contOn || !endOn || eh < k || eh > hi) continue;
      if (ends[e].bop < best) best = ends[e].bop;
    }
    pub[n++] = best;
  }
  (void)w;
  return n;
}
extern "C" __attribute__((noinline)) void h_frview() {
  World& w = newWorld();
  ToyEd& t = *w.t;
  w.ep->ki = (uint32_t)verif_choice(1, 2);
  w.ep->finalityDelay = verif_range(1, 4);
  w.ep->settlement = 5;
  int ki = (int)w.ep->ki;
  int la = (int)verif_choice(1, LMAX), lb = (int)verif_choice(1, LMAX);
  int chainA[LMAX + 2] = {1}, chainB[LMAX + 2] = {1};
  int id = 2;
  for (int h = 1; h <= la; h++) chainA[h] = id++;
  for (int h = 1; h <= lb; h++) chainB[h] = id++;
  // every ED block at height h adds SP block at height h (ids 10+h; same header on both chains => shared, reference counted)
  for (int h = 1; h <= la; h++) { GroupSpec& g = t.spec[chainA[h]][0]; g.present = true; g.btcId = (uint8_t)(10 + h); g.btcPrev = (uint8_t)(h == 1 ? 1 : 10 + h - 1); }
  for (int h = 1; h <= lb; h++) { GroupSpec& g = t.spec[chainB[h]][0]; g.present = true; g.btcId = (uint8_t)(10 + h); g.btcPrev = (uint8_t)(h == 1 ? 1 : 10 + h - 1); }
  End ends[NEND];
  for (int e = 0; e < NEND; e++) {
    ends[e] = End{0, 0, 0};
    uint32_t c = verif_choice(0, id - 1);
    if (c < 2 || t.spec[c][1].present) continue;
    // an honest endorsement: endorsed = an ancestor-or-self of the containing block on the same chain, block of proof already delivered
    bool onA = false; int ch = 0;
    for (int h = 1; h <= la; h++) if (chainA[h] == (int)c) { onA = true; ch = h; }
    for (int h = 1; h <= lb; h++) if (chainB[h] == (int)c) { ch = h; }
    int eh = (int)verif_choice(1, ch);
    int bop = (int)verif_choice(0, ch);
    GroupSpec& g = t.spec[c][1];
    g.present = true; g.endorsed = (uint8_t)(onA ? chainA[eh] : chainB[eh]); g.bop = (uint8_t)(bop == 0 ? 1 : 10 + bop);
    ends[e] = End{(int)c, (int)g.endorsed, bop};
  }
  for (int h = 1; h <= la; h++) addEd(w, (uint8_t)chainA[h], (uint8_t)chainA[h - 1]);
  for (int h = 1; h <= lb; h++) addEd(w, (uint8_t)chainB[h], (uint8_t)chainB[h - 1]);
  ValidationState s1;
  bool okA = t.setState(*t.ed((uint8_t)chainA[la]), s1);
  verif_check(okA, 1);                       // honest payloads: chain A activates (C19)
  if (!okA) return;
  int r = t.comparePopScore(*t.ed((uint8_t)chainB[lb]));
  int pa[LMAX + 2], pb[LMAX + 2];
  int na = profile(w, chainA, la, ends, NEND, ki, pa), nb = profile(w, chainB, lb, ends, NEND, ki, pb);
  bool crossed = (la / ki) > 0 || (lb / ki) > 0;
  if (!crossed) { verif_check(r == 0, 2); verif_cover(4); }         // neither chain crosses a keystone boundary: equal
  else {
    int64_t ref = refScore(*w.ep, na, pa, nb, pb);
    verif_check((r > 0) == (ref > 0) && (r < 0) == (ref < 0), 3);   // sign of the verdict == protocol scoring of the two chains
    if (ref > 0) verif_cover(1);
    if (ref < 0) verif_cover(2);
    if (ref == 0) verif_cover(3);
  }
  if (r < 0) verif_check(t.getBestChain().tip() == t.ed((uint8_t)chainB[lb]), 4); else verif_check(t.getBestChain().tip() == t.ed((uint8_t)chainA[la]), 5);
  checkApplied(w, 100);
  verif_observe((uint64_t)(int64_t)r);
}
