import os, sys
sys.path.insert(0, os.path.join(os.path.dirname(os.path.abspath(__file__)), '..', 'common'))
import srcsets_tree
TOY_SRCS = srcsets_tree.BTC_TREE + ['src/pop/blockchain/pop/fork_resolution.cpp']
OBL = ['comparePopScoreImpl(A,B) == independent keystone-by-keystone reference scorer for every pair of publication profiles in the bound',
       'sign(cmp(A,B)) == -sign(cmp(B,A)); 0 when both views are empty']
TB = 'tables {100},{100,50},{100,50,25}, finality delay 1..12 (symbolic), keystone interval 1..2'
HARNESSES = [
    {'name': 'h_score', 'src': 'C03/h_score.cpp', 'entry': 'h_score', 'repo_srcs': TOY_SRCS, 'covers': [1, 2, 3], 'jobs': 16, 'obligations': OBL,
     'rungs': {'quick': [{'defines': ['KMAX=2', 'HMAX=15'], 'bound': '0..2 keystones per side, first-publication heights 0..15 or none (symbolic), ' + TB, 'timeout': 250}],
               'thorough': [{'defines': ['KMAX=3', 'HMAX=7'], 'bound': '0..3 keystones per side, heights 0..7 or none, ' + TB, 'timeout': 5000},
                            {'defines': ['KMAX=2', 'HMAX=31'], 'bound': '0..2 keystones per side, heights 0..31 or none, ' + TB, 'timeout': 1500}]}},
    {'name': 'h_score_asym', 'src': 'C03/h_score.cpp', 'entry': 'h_score', 'repo_srcs': TOY_SRCS, 'covers': [1, 2], 'jobs': 16, 'obligations': OBL,
     'rungs': {'quick': [{'defines': ['KMAX=3', 'KMAXA=1', 'HMAX=7'], 'bound': 'one side 0..1 keystones, the other 0..3 (both role orders are compared), heights 0..7 or none, ' + TB, 'timeout': 200}],
               'thorough': [{'defines': ['KMAX=4', 'KMAXA=1', 'HMAX=7'], 'bound': 'one side 0..1 keystones, the other 0..4, heights 0..7 or none, ' + TB, 'timeout': 3000},
                            {'defines': ['KMAX=3', 'KMAXA=2', 'HMAX=7'], 'bound': 'one side 0..2 keystones, the other 0..3', 'timeout': 3000}]}},
    {'name': 'h_frview', 'src': 'C03/h_frview.cpp', 'entry': 'h_frview', 'repo_srcs': TOY_SRCS, 'covers': [1, 2, 3, 4], 'jobs': 16,
     'obligations': ['end-to-end: sign of comparePopScore on the F-TT system == reference scorer applied to publication profiles computed by an independent specification of which endorsements count (endorsed block inside the keystone window up to keystone+interval+1 and the tip, containing block on the same chain, earliest block of proof)',
                     '0 when neither chain crosses a keystone boundary; the winner becomes the tip; honest chains activate'],
     'rungs': {'quick': [{'defines': ['NEND=2', 'LMAX=3'], 'bound': 'two chains of 1..3 blocks forking at the bootstrap block, keystone interval 1..2, finality delay 1..4, 2 honest endorsements with symbolic containing/endorsed/block of proof on a shared SP chain', 'timeout': 280}],
               'thorough': [{'defines': ['NEND=3', 'LMAX=4'], 'bound': 'chains of 1..4 blocks, 3 endorsements', 'timeout': 3000}, {'defines': ['NEND=2', 'LMAX=4'], 'bound': 'chains of 1..4 blocks, 2 endorsements', 'timeout': 1500}]}},
    {'name': 'h_ks', 'src': 'C03/h_ks.cpp', 'entry': 'h_ks', 'repo_srcs': ['src/pop/keystone_util.cpp'], 'covers': [1, 2, 3], 'jobs': 8,
     'obligations': ['keystone_util: isKeystone, highestKeystoneAtOrBefore, firstKeystoneAfter, blockHeightToKeystoneNumber, highestBlockWhichConnectsKeystoneToPrevious, isCrossedKeystoneBoundary, areOnSameKeystoneInterval, getPreviousKeystoneHeight == their arithmetic definitions for every height pair in the bound and every interval'],
     'rungs': {'quick': [{'defines': ['KIMAX=8', 'HMASK=0x3ff'], 'bound': 'heights 0..1023 (two symbolic heights), keystone interval 1..8', 'timeout': 250}],
               'thorough': [{'defines': ['KIMAX=21', 'HMASK=0xffff'], 'bound': 'heights 0..65535, keystone interval 1..21', 'timeout': 1500}]}},
]
import importlib.util as _ilu
_rp = _ilu.spec_from_file_location('realspec', os.path.join(os.path.dirname(os.path.abspath(__file__)), '..', 'real', 'spec.py'))
_real = _ilu.module_from_spec(_rp); _rp.loader.exec_module(_real)
HARNESSES += _real.CMP_HARNESSES + _real.VBKCMP_HARNESSES
EXPLANATION = 'The real scoring function is executed on symbolic publication profiles and compared with an independent reference on every path.'
ASSUMPTIONS = ['the reference scorer of DESIGN.md appendix A is the protocol definition (pre-validated against the unchanged tree on 1.4 M profiles)',
               'which endorsements count (ReducedPublicationView on real trees) is covered through the F-TT harness and, on the real ALT tree, by the one-keystone scenarios of h_realcmp and h_realsp_unequal']
