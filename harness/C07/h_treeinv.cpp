// C07 H-TREEINV: real BlockTree<BtcBlock>; symbolic base tree (NBASE blocks) followed by a symbolic history of NOPS
// public operations; the structural invariant set is asserted after every step.
#include "common/btc_env.hpp"
using namespace vh;
#ifndef NBASE
#define NBASE 3
#endif
#ifndef NOPS
#define NOPS 3
#endif
extern "C" __attribute__((noinline)) void h_treeinv() {
  auto& p = *new BtcP();
  auto& t = newBtcTree(p);
  uint8_t parent[NBASE + NOPS + 2] = {0};
  buildSymbolicTree(t, NBASE, parent);
  checkStructure(t, 100);
  int next = NBASE + 1;
  for (int k = 0; k < NOPS; k++) {
    uint32_t op = verif_range(0, 4);
    if (op == 0) {  // new header on any known (possibly invalid / deleted) parent id
      uint8_t par = (uint8_t)verif_range(1, next - 1);
      parent[next] = par;
      ValidationState st;
      bool parentUsable = idx(t, par) != nullptr && idx(t, par)->isValid();
      bool ok = t.acceptBlockHeader(mkBtc((uint8_t)next, par, 1000 + 10 * next), st);
      verif_check(ok == parentUsable, 10);  // accepted iff it connects to a known valid block (other rules hold by construction)
      if (!ok) verif_check(!st.IsValid(), 11);
      auto* ni = t.findBlockIndex(btcHash((uint8_t)next));
      if (ni && !ni->isDeleted()) verif_check(ni->isValid() == parentUsable, 12);
      next++;
      verif_cover(1);
    } else {
      uint8_t b = (uint8_t)verif_range(2, next - 1);
      auto* bi = idx(t, b);
      if (!bi) { verif_cover(9); continue; }  // removed earlier
      if (op == 1) { t.invalidateSubtree(*bi, verif_bool() ? BLOCK_FAILED_POP : BLOCK_FAILED_BLOCK); verif_cover(2); }
      else if (op == 2) { t.revalidateSubtree(*bi, verif_bool() ? BLOCK_FAILED_POP : BLOCK_FAILED_BLOCK); verif_cover(3); }
      else if (op == 3) { t.removeSubtree(*bi); verif_check(idx(t, b) == nullptr, 13); verif_cover(4); }
      else {  // re-announce an existing header: a no-op for a known block
        ValidationState st;
        size_t nb = t.getBlocks().size();
        t.acceptBlockHeader(mkBtc(b, parent[b], 1000 + 10 * b), st);
        verif_check(t.getBlocks().size() == nb, 14);
        verif_cover(5);
      }
    }
    checkStructure(t, 200 + 100 * k);
    verif_observe(idOf(t.getBestChain().tip()));
    verif_observe(t.getTips().size());
  }
}
