import os, sys
sys.path.insert(0, os.path.join(os.path.dirname(os.path.abspath(__file__)), '..', 'common'))
import srcsets_tree
HARNESSES = [
    {'name': 'h_treeinv', 'src': 'C07/h_treeinv.cpp', 'entry': 'h_treeinv', 'repo_srcs': srcsets_tree.BTC_TREE, 'covers': [1, 2, 3, 4, 5], 'jobs': 8,
     'obligations': ['after every step of every history: heights follow parents, links mutual, valid => ancestors valid, descendants of failed blocks failed',
                     'after every step: getTips() == usable blocks without usable child; best chain contiguous root..tip through valid, non-deleted blocks',
                     'acceptBlockHeader accepts iff the parent is known and valid; removed blocks are unreachable through getBlockIndex; re-announcing a known header is a no-op',
                     'no VBK_ASSERT / out-of-bounds / use-after-free in any history'],
     'rungs': {'quick': [{'defines': ['NBASE=3', 'NOPS=3'], 'bound': 'every base tree on 3 blocks x every history of 3 operations from {new header on any block, invalidate, revalidate, removeSubtree, re-announce} (<= 6 blocks)', 'timeout': 200}],
               'thorough': [{'defines': ['NBASE=3', 'NOPS=4'], 'bound': 'base tree 3 blocks x every history of 4 operations (<= 7 blocks)', 'timeout': 2400, 'jobs': 16},
                            {'defines': ['NBASE=3', 'NOPS=3'], 'bound': 'base 3 blocks x 3 operations', 'timeout': 400}]}},
]
import importlib.util as _ilu
_rp = _ilu.spec_from_file_location('realspec', os.path.join(os.path.dirname(os.path.abspath(__file__)), '..', 'real', 'spec.py'))
_real = _ilu.module_from_spec(_rp); _rp.loader.exec_module(_real)
HARNESSES += [x for x in _real.HARNESSES if x['name'] == 'h_real'] + [x for x in _real.MEMPOOL_HARNESSES if x['name'] == 'h_mempool_reject'] + _real.INV_HARNESSES
EXPLANATION = 'The real BlockTree<BtcBlock>/BaseBlockTree code is executed symbolically over every bounded history; the invariants are asserted after each step.'
ASSUMPTIONS = ['block hashes are preset small ids (no SHA-256); regtest parameters', 'h_real covers AltBlockTree acceptBlock/connectBlock and the ALT payload index on small scenarios; mempool activity and VTBs are not covered']
