// C16 (sequential obligations) / C05 (PopData limits, duplicates): the REAL TEXT of checkPopData (sliced from
// src/pop/stateless_validation.cpp on every run) compiled against a stand-in validator whose addCheck returns ghost
// futures with symbolic verdicts.  Thread-pool contract: a posted task may run at any time until its future has been
// waited for; therefore on return every posted task must have been awaited.
#include <future>
#include <veriblock/pop/validation_state.hpp>
#include <vector>
namespace altintegration {
#define VBK_TRACE_ZONE_SCOPED
static int g_outstanding = 0;  // ghost: tasks posted whose future has not been waited for
static int g_posted = 0;
struct GhostFuture {
  bool valid; bool got = false;
  ValidationState get() { if (!got) { got = true; g_outstanding--; } ValidationState s; if (!valid) s.Invalid("x"); return s; }
  void wait() { if (!got) { got = true; g_outstanding--; } }
};
}  // namespace altintegration
namespace std {
template <> class future<altintegration::ValidationState> : public altintegration::GhostFuture {
 public:
  future(altintegration::GhostFuture g) : altintegration::GhostFuture(g) {}
};
}  // namespace std
namespace altintegration {
struct ToyP { bool ok; uint8_t id; size_t sz; size_t estimateSize() const { return sz; } };
struct AltP {
  size_t maxSize, maxVbk, maxVtb, maxAtv;
  size_t getMaxPopDataSize() const { return maxSize; }
  size_t getMaxVbkBlocksInAltBlock() const { return maxVbk; }
  size_t getMaxVTBsInAltBlock() const { return maxVtb; }
  size_t getMaxATVsInAltBlock() const { return maxAtv; }
};
struct PopData {
  std::vector<ToyP> context, vtbs, atvs;
  mutable bool checked = false;
  size_t estimateSize() const { size_t s = 4; for (auto& p : context) s += p.sz; for (auto& p : vtbs) s += p.sz; for (auto& p : atvs) s += p.sz; return s; }
};
struct PopValidator {
  AltP alt;
  const AltP& getAltParams() const { return alt; }
  std::future<ValidationState> addCheck(const ToyP& p) { g_outstanding++; g_posted++; return std::future<ValidationState>(GhostFuture{p.ok}); }
  void clear();
};
static bool dupIn(const std::vector<ToyP>& v) { for (size_t i = 0; i < v.size(); i++) for (size_t j = i + 1; j < v.size(); j++) if (v[i].id == v[j].id) return true; return false; }
static bool checkPopDataForDuplicates(const PopData& pd, ValidationState& state) {
  if (dupIn(pd.context) || dupIn(pd.vtbs) || dupIn(pd.atvs)) return state.Invalid("dup");
  return true;
}
#include "slice_clear.inc"          // void PopValidator::clear() { ... }   (real text)
#include "slice_checkPopData.inc"   // bool checkPopData(...) { ... }        (real text)
}  // namespace altintegration
using namespace altintegration;
#ifndef NPAY
#define NPAY 3
#endif
extern "C" __attribute__((noinline)) void h_popdata() {
  auto& v = *new PopValidator();
  v.alt = {(size_t)verif_range(20, 60), (size_t)verif_range(0, 3), (size_t)verif_range(0, 3), (size_t)verif_range(0, 3)};
  auto& pd = *new PopData();
  bool allok = true;
  for (int kind = 0; kind < 3; kind++) {
    uint32_t n = verif_choice(0, kind == 2 ? NPAY : 1);
    auto& vec = kind == 0 ? pd.context : (kind == 1 ? pd.vtbs : pd.atvs);
    for (uint32_t i = 0; i < n; i++) {
      bool ok = verif_bool();
      uint8_t id = (uint8_t)verif_range(1, 3);
      vec.push_back(ToyP{ok, id, 10});
      allok = allok && ok;
    }
  }
  bool limits = pd.estimateSize() <= v.alt.maxSize && pd.context.size() <= v.alt.maxVbk && pd.vtbs.size() <= v.alt.maxVtb && pd.atvs.size() <= v.alt.maxAtv;
  bool nodup = !dupIn(pd.context) && !dupIn(pd.vtbs) && !dupIn(pd.atvs);
  auto& st = *new ValidationState();
  bool r = checkPopData(v, pd, st);
  verif_check(r == (limits && allok && nodup), 1);   // verdict == limits respected AND every payload valid AND no duplicate ids
  verif_check(g_outstanding == 0, 2);                // when check() returns no posted task is still un-awaited (caller may free PopData)
  if (!r) verif_check(!st.IsValid(), 3);
  // a second call on the same object gives the same verdict (the 'checked' memo must not turn a rejected PopData valid)
  auto& st2 = *new ValidationState();
  bool r2 = checkPopData(v, pd, st2);
  verif_check(r2 == r, 4);
  verif_check(g_outstanding == 0, 5);
  if (r) verif_cover(1);
  if (!allok && limits) verif_cover(2);
  if (!nodup && allok && limits) verif_cover(3);
  if (!limits) verif_cover(4);
  if (g_posted >= 2 && !allok) verif_cover(5);
}
