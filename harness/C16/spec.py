SLICES = [{'file': 'src/pop/stateless_validation.cpp', 'start': 'bool checkPopData(PopValidator& validator', 'out': 'slice_checkPopData.inc'},
          {'file': 'src/pop/pop_stateless_validator.cpp', 'start': 'void PopValidator::clear()', 'out': 'slice_clear.inc'}]
HARNESSES = [
    {'name': 'h_popdata', 'src': 'C16/h_popdata.cpp', 'entry': 'h_popdata', 'repo_srcs': ['src/pop/validation_state.cpp'], 'slices': SLICES, 'covers': [1, 2, 3, 4, 5], 'jobs': 8,
     'obligations': ['check(PopData) verdict == (count/size limits respected AND every per-payload verdict valid AND no duplicate ids), i.e. the verdict of checking the payloads one after another',
                     'when check(PopData) returns (valid or invalid) every task it posted has been awaited: no worker can still read the caller\'s PopData',
                     'a repeated check of the same PopData object gives the same verdict'],
     'rungs': {'quick': [{'defines': ['NPAY=3'], 'bound': '0..1 VBK blocks, 0..1 VTBs, 0..3 ATVs with symbolic verdicts and ids 1..3, symbolic limits', 'timeout': 200}],
               'thorough': [{'defines': ['NPAY=5'], 'bound': '0..1 VBK blocks, 0..1 VTBs, 0..5 ATVs', 'timeout': 1500, 'jobs': 16}, {'defines': ['NPAY=3'], 'bound': 'as quick', 'timeout': 400}]}},
]
EXPLANATION = 'The real function text of checkPopData and PopValidator::clear is sliced from the current source and executed symbolically against ghost futures; only the SEQUENTIAL obligations of C16 are decided.'
ASSUMPTIONS = ['thread schedules, data races, pool start/stop and the MPMC queue are NOT covered (no encoding of C++ threads in this family)',
               'thread-pool contract assumed: a posted task may run at any time until its future has been waited for', 'stand-in PopData/validator types; if the sliced text no longer compiles against them the check is inconclusive']
