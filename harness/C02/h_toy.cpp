// F-TT main harness (C02 atomicity; also carries C01 round trip, C04 contextual validity, C19 honest acceptance, C20 re-activation).
// World: ED tree of NED blocks with symbolic shape; every block may carry AddBlock(BTC 10+e on a symbolic BTC parent);
// NEND endorsements with symbolic containing / endorsed / block of proof; one always-failing command at a symbolic position.
// History: setState(T0); then one symbolic operation (setState or comparePopScore); then re-activation probes.
#include "common/toy_env.hpp"
using namespace vt;
#ifndef NED
#define NED 4
#endif
#ifndef NEND
#define NEND 1
#endif
static World* W;
static void buildWorld() {
  World& w = newWorld();
  W = &w;
  ToyEd& t = *w.t;
  w.ep->settlement = (int32_t)verif_choice(1, 2);   // small settlement interval: the expiry boundary is inside the explored trees
  // specs first (addEd reads them)
  uint8_t par[NED + 1] = {0};
  for (int e = 2; e <= NED; e++) {
#ifdef FIXSHAPE
    { static const uint8_t fp[5] = {0, 0, 1, 1, 3}; par[e] = fp[e]; }   // chain A = 1-2, chain B = 1-3-4 (B's first block is as tall as A)
#else
    par[e] = (uint8_t)verif_choice(1, e - 1);
#endif
    if (verif_cbool()) {
      GroupSpec& g = t.spec[e][0];
      g.present = true;
      g.btcId = (uint8_t)(10 + e);
      uint32_t p = verif_range(1, NED);            // BTC parent: genesis (1) or the BTC block of ED block p (10+p)
      g.btcPrev = (uint8_t)(p == 1 ? 1 : 10 + p);
    }
  }
  for (int k = 0; k < NEND; k++) {
    uint32_t c = verif_choice(0, NED);
    if (c < 2) continue;
    GroupSpec& g = t.spec[c][1];
    if (g.present) continue;
    g.present = true;
    g.endorsed = (uint8_t)verif_range(1, NED);
    uint32_t b = verif_range(1, NED);
    g.bop = (uint8_t)(b == 1 ? 1 : 10 + b);
  }
#ifdef REREF
  // one block may reference, in its second group, the SP block defined by another block (same header => shared, reference counted at two heights)
  {
    uint32_t c = verif_choice(0, NED), r = verif_choice(2, NED);
    if (c >= 2 && c != r && t.spec[r][0].present && !t.spec[c][1].present) {
      GroupSpec& g = t.spec[c][1];
      g.present = true; g.btcId = t.spec[r][0].btcId; g.btcPrev = t.spec[r][0].btcPrev;
      verif_cover(21);
    }
  }
#endif
  uint32_t fb = verif_choice(0, NED);
  if (fb >= 2) {
    uint32_t fg = verif_choice(0, 1);
    GroupSpec& g = t.spec[fb][fg];
    if (!g.present) { g.present = true; }
    g.failPos = (uint8_t)verif_choice(1, 3);
    verif_cover(20);
  }
  for (int e = 2; e <= NED; e++) addEd(w, (uint8_t)e, par[e]);
}
static void checkInvalidMarks(World& w, int target, int base) {
  // the first block that cannot be applied on its own ancestry is FAILED_POP, its descendants are failed
  int bad = simFirstInvalid(w, target);
  verif_check(bad != 0, base);
  if (!bad) return;
  auto* bi = w.t->ed((uint8_t)bad);
  verif_check(bi->hasFlags(BLOCK_FAILED_POP), base + 1);
  for (int x = 2; x <= w.ned; x++)
    if (x != bad && isAncestorOrSelf(w, bad, x)) verif_check(w.t->ed((uint8_t)x)->isFailed(), base + 2);
  verif_check(!w.t->ed((uint8_t)target)->isValid(), base + 3);
}
extern "C" __attribute__((noinline)) void h_toy() {
  buildWorld();
  World& w = *W;
  ToyEd& t = *w.t;
#ifdef PREACT
  // history prefix: block PREACT was activated (and so fully validated on its own, if valid) before anything else
  { ValidationState sp; bool okp = t.setState(*t.ed(PREACT), sp); verif_check(okp == simChainValid(w, PREACT), 30); if (okp) verif_cover(30); checkApplied(w, 500); }
#endif
  // ---- step 1: setState(T0)
  uint8_t T0 = (uint8_t)verif_choice(2, NED);
  auto* tipInit = t.getBestChain().tip();
  uint64_t dInit = digest(w, T0, true);  // marks on the target branch are masked on both sides
  ValidationState s1;
  bool ok0 = t.setState(*t.ed(T0), s1);
  bool exp0 = simChainValid(w, T0);
  verif_check(ok0 == exp0, 1);           // activated iff every payload on root..T0 is contextually valid there (C04, C19)
  if (ok0) { verif_check(t.getBestChain().tip() == t.ed(T0), 2); verif_cover(1); }
  else {
    verif_check(t.getBestChain().tip() == tipInit, 3);
    verif_check(digest(w, T0, true) == dInit, 4);                     // nothing but marks on the target branch changed
    checkInvalidMarks(w, T0, 40);
    verif_cover(2);
  }
  checkApplied(w, 100);
  uint64_t d0 = digest(w, 0, spBestIsUnique(w), true);  // validity marks of other branches are history, not POP state
  bool uniq0 = spBestIsUnique(w);
  auto* tip0 = t.getBestChain().tip();
  // ---- step 2: one more operation
  uint8_t X = (uint8_t)verif_choice(2, NED);
  auto* xi = t.ed(X);
  bool doCmp = verif_cbool();
  bool xWasValid = xi->isValid();
  uint64_t before = digest(w, X, true);
  auto* spTipBefore = t.btc().getBestChain().tip();
  if (!doCmp) {
    ValidationState s2;
    bool wasValid = xi->isValid();
    bool ok = t.setState(*xi, s2);
    verif_check(ok == simChainValid(w, X), 5);
    if (ok) { verif_check(t.getBestChain().tip() == xi, 6); verif_cover(3); }
    else {
      verif_check(t.getBestChain().tip() == tip0, 7);                 // failed switch: the old tip is still active
      verif_check(digest(w, X, true) == before, 8);                   // ... and every observable is as before (except marks on the target branch)
      verif_check(t.btc().getBestChain().tip() == spTipBefore, 9);
      if (wasValid) checkInvalidMarks(w, X, 50);
      verif_cover(4);
    }
  } else {
    int r = t.comparePopScore(*xi);
    verif_observe((uint64_t)(int64_t)r);
    if (r >= 0) {
      verif_check(t.getBestChain().tip() == tip0, 10);                // tip kept
      verif_check(digest(w, X, true) == before, 11);                  // all views unchanged (except marks on the candidate branch)
      verif_check(t.btc().getBestChain().tip() == spTipBefore, 12);
      if (r > 0) verif_cover(5); else verif_cover(6);
    } else {
      verif_check(t.getBestChain().tip() == xi, 13);                  // candidate active
      verif_check(simChainValid(w, X), 14);                           // a winning candidate is valid on its own ancestry (C03/C04/C20)
      verif_cover(7);
    }
    if (!xWasValid) verif_check(r > 0, 15);                            // a candidate already reported invalid is refused
  }
  checkApplied(w, 200);
#ifndef NOSTEP3
  // ---- step 3 (C20): any block reporting full validity can be activated from the current state
  uint8_t Y = (uint8_t)verif_choice(2, NED);
  auto* yi = t.ed(Y);
  if (yi->isValid(BLOCK_CAN_BE_APPLIED) && !yi->isFailed()) {
    verif_check(simChainValid(w, Y), 16);                              // full validity is only reported for chains valid on their own
    ValidationState s3;
    bool ok = t.setState(*yi, s3);
    verif_check(ok, 17);
    checkApplied(w, 300);
    verif_cover(8);
  }
#endif
  // ---- step 4 (C01): going back to T0 reproduces the state recorded after step 1
  if (ok0) {
    ValidationState s4;
    bool back = t.setState(*t.ed(T0), s4);
    verif_check(back, 18);                                             // T0 was active once, nothing invalidated it (C20)
    if (back) {
      bool uniq = spBestIsUnique(w) && uniq0;
      uint64_t d1 = digest(w, 0, uniq, true);
      uint64_t d0c = uniq ? d0 : d0;  // d0 was computed with includeSpBest == uniq0
      if (uniq == uniq0) verif_check(d1 == d0c, 19);                   // POP state depends only on the active chain
      checkApplied(w, 400);
      verif_cover(9);
    }
  }
  verif_observe(t.getBestChain().tip()->getHash().data()[0]);
}
