import os, sys
sys.path.insert(0, os.path.join(os.path.dirname(os.path.abspath(__file__)), '..', 'common'))
import srcsets_tree
TOY_SRCS = srcsets_tree.BTC_TREE + ['src/pop/blockchain/pop/fork_resolution.cpp']
HARNESSES = [
    {'name': 'h_toy', 'src': 'C02/h_toy.cpp', 'entry': 'h_toy', 'repo_srcs': TOY_SRCS, 'covers': [1, 2, 3, 4, 5, 7, 8, 9, 20], 'jobs': 16,
     'obligations': ['setState(target) succeeds iff every payload on root..target is contextually valid there (independent integer specification); on success the target is the tip',
                     'setState failure: tip, SP best chain and the digest of both trees (flags, endorsement lists, reference counts, tips) equal the pre-state except validity marks on the target branch; first invalid block FAILED_POP, descendants failed',
                     'comparePopScore >= 0: tip and digest unchanged; < 0: candidate active and valid on its own ancestry; invalid candidates are refused',
                     'after every call exactly root..tip carry BLOCK_ACTIVE, appliedBlockCount agrees, tip is BLOCK_CAN_BE_APPLIED, SP blocks exist iff referenced',
                     'a block reporting BLOCK_CAN_BE_APPLIED can be activated again; returning to the first target reproduces the digest recorded there'],
     'rungs': {'quick': [{'defines': ['NED=3', 'NEND=1'], 'bound': 'ED tree: every shape on 3 blocks; optional AddBlock per block with symbolic SP parent; 1 endorsement with symbolic containing/endorsed/block-of-proof; one failing command at any block/group/position; history setState, {setState|comparePopScore}, re-activation probe, return', 'timeout': 280}],
               'thorough': [{'defines': ['NED=3', 'NEND=2'], 'bound': 'ED tree 3 blocks, 2 endorsements, otherwise as quick', 'timeout': 900}]}},
]
import copy as _copy
_h4 = _copy.deepcopy(HARNESSES[0])
_h4.update({'name': 'h_toy4', 'tiers': ['thorough'], 'covers': [1, 2, 3, 4, 5, 7, 9, 20],
            'rungs': {'thorough': [{'defines': ['NED=4', 'NEND=0', 'NOSTEP3'], 'bound': 'ED tree: every shape on 4 blocks (forks below a failing block), optional AddBlock per block with symbolic SP parent, no endorsements, one failing command at any block/group/position; history setState, {setState|comparePopScore}, return to the first target (no re-activation probe)', 'timeout': 1500}]}})
HARNESSES.append(_h4)
_h5 = _copy.deepcopy(HARNESSES[0])
_h5.update({'name': 'h_toyfork', 'tiers': ['thorough'], 'covers': [1, 2, 3, 4, 5, 7, 9, 20, 30],
            'rungs': {'thorough': [{'defines': ['NED=4', 'NEND=1', 'NOSTEP3', 'FIXSHAPE', 'PREACT=3'], 'bound': 'fixed ED tree: chain A = 1-2, chain B = 1-3-4, block 3 activated once before everything else (so B has a part validated on its own that is as tall as A); optional AddBlock per block with symbolic SP parent, 1 endorsement with symbolic containing/endorsed/block-of-proof, one failing command at any block/group/position; history setState, {setState|comparePopScore}, return to the first target', 'timeout': 1500}]}})
HARNESSES.append(_h5)
import importlib.util as _ilu
_rp = _ilu.spec_from_file_location('realspec', os.path.join(os.path.dirname(os.path.abspath(__file__)), '..', 'real', 'spec.py'))
_real = _ilu.module_from_spec(_rp); _rp.loader.exec_module(_real)
HARNESSES += [x for x in _real.HARNESSES if x['name'] == 'h_real'] + _real.SP_HARNESSES + _real.VBKADD_HARNESSES
EXPLANATION = 'A two-level POP system built from the real templates (PopStateMachine, PopAwareForkResolutionComparator, CommandGroup, AddBlock, AddEndorsement, BaseBlockTree, real BTC tree) is executed symbolically; verdicts are compared with an independent integer specification of contextual validity.'
ASSUMPTIONS = ['the protected tree is a toy instantiation of the real templates (EdBlock, harness command store); AltBlockTree/VbkBlockTree payload plumbing (AddVTB, payload stores, mempool) is outside',
               'ToyEd::setState/comparePopScore are copies of the AltBlockTree bodies', 'SP blocks have equal work and equal timestamps; SP best chain compared only when it is not a work tie']
