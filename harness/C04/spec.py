import os, importlib.util as _ilu
_sp = _ilu.spec_from_file_location('c02spec', os.path.join(os.path.dirname(os.path.abspath(__file__)), '..', 'C02', 'spec.py'))
_c02 = _ilu.module_from_spec(_sp); _sp.loader.exec_module(_c02)
import copy
h = copy.deepcopy(_c02.HARNESSES[0])
h['obligations'] = ['a block is activated (setState true / comparePopScore < 0) only if every payload on its chain satisfies the contextual rules of the independent specification: endorsed block known, on the containing block\'s own chain, within the settlement interval, block of proof known, SP context header connects',
                    'a block with a rule-breaking payload (symbolic placement: endorsed on another fork / expired / unknown block of proof / unconnected SP header / failing command) ends BLOCK_FAILED_POP, all descendants failed, setState false, comparePopScore never negative']
_rp = _ilu.spec_from_file_location('realspec', os.path.join(os.path.dirname(os.path.abspath(__file__)), '..', 'real', 'spec.py'))
_real = _ilu.module_from_spec(_rp); _rp.loader.exec_module(_real)
HARNESSES = [h] + copy.deepcopy(_real.HARNESSES + _real.CTX_HARNESSES)
EXPLANATION = _c02.EXPLANATION
ASSUMPTIONS = _real.ASSUMPTIONS + _c02.ASSUMPTIONS + ['CheckPublicationData (context info vs endorsed block), VTB/BTC-context rules of VbkBlockTree::addPayloads and the stateful duplicate check of AltBlockTree are not covered by the toy']
