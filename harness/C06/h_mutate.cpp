// C06 H-MUTATE: the whole-payload decoders (VbkTx, VbkPopTx, ATV, VTB, PopData) on every NMUT-byte mutation of a valid encoding
// (positions by case split, replacement bytes symbolic) and on every truncation of it: no out-of-bounds access, no abort, no
// exception (engine obligations); a failed decode leaves an invalid ValidationState; a successful decode yields an object whose
// estimateSize() equals the length of its own encoding.  The valid encoding is produced by the real encoders on this run.
#include <veriblock/pop/entities/atv.hpp>
#include <veriblock/pop/entities/vtb.hpp>
#include <veriblock/pop/entities/popdata.hpp>
#include <veriblock/pop/serde.hpp>
#include <veriblock/pop/entities/address.hpp>
#include <veriblock/pop/entities/altblock.hpp>
#include <veriblock/pop/storage/stored_block_index.hpp>
#include <veriblock/pop/storage/stored_btc_block_addon.hpp>
#include <veriblock/pop/storage/stored_vbk_block_addon.hpp>
#include <veriblock/pop/storage/stored_alt_block_addon.hpp>
using namespace altintegration;
#ifndef NMUT
#define NMUT 1
#endif
static VbkBlock mkVbk(uint8_t s) { VbkBlock b; b.height = 1000 + s; b.version = 2; b.timestamp = 1600000000u + s; b.difficulty = 0x0100ffff; b.nonce = 77 + s; ((uint8_t*)b.merkleRoot.data())[3] = s; ((uint8_t*)b.previousBlock.data())[2] = s; return b; }
static BtcBlock mkBtc(uint8_t s) { BtcBlock b; b.version = 1; b.timestamp = 1500000000u + s; b.bits = 0x207fffff; b.nonce = s; ((uint8_t*)b.merkleRoot.data())[5] = s; return b; }
static VbkTx mkTx() {
  VbkTx t; t.networkOrType.networkType.hasValue = true; t.networkOrType.networkType.value = 0xBB; t.networkOrType.typeId = 1;
  t.sourceAmount.units = 1000; Output o; o.coin.units = 300; t.outputs.push_back(o); t.signatureIndex = 5;
  t.publicationData.identifier = 7; t.publicationData.header = {1, 2, 3}; t.publicationData.payoutInfo = {4, 5}; t.publicationData.contextInfo = {6};
  t.signature = std::vector<uint8_t>(6, 0x30); t.publicKey = std::vector<uint8_t>(5, 0x31);
  return t;
}
static VbkPopTx mkPopTx() {
  VbkPopTx t; t.networkOrType.networkType.hasValue = true; t.networkOrType.networkType.value = 0xBB; t.networkOrType.typeId = 2;
  t.publishedBlock = mkVbk(1); t.bitcoinTransaction.tx = {9, 8, 7, 6}; t.merklePath.index = 1; t.merklePath.subject = t.bitcoinTransaction.getHash();
  uint256 l; ((uint8_t*)l.data())[0] = 0x44; t.merklePath.layers.push_back(l);
  t.blockOfProof = mkBtc(2); t.blockOfProofContext.push_back(mkBtc(1));
  t.signature = std::vector<uint8_t>(6, 0x32); t.publicKey = std::vector<uint8_t>(5, 0x33);
  return t;
}
static VbkMerklePath mkPath(uint8_t s) { VbkMerklePath m; m.treeIndex = 1; m.index = 0; ((uint8_t*)m.subject.data())[1] = s; uint256 l; ((uint8_t*)l.data())[0] = s; m.layers.push_back(l); return m; }
static ATV mkAtv() { ATV a; a.transaction = mkTx(); a.merklePath = mkPath(3); a.blockOfProof = mkVbk(3); return a; }
static VTB mkVtb() { VTB v; v.transaction = mkPopTx(); v.merklePath = mkPath(4); v.containingBlock = mkVbk(4); return v; }
#if defined(M_VBKTX)
typedef VbkTx T; static T mk() { return mkTx(); }
#elif defined(M_POPTX)
typedef VbkPopTx T; static T mk() { return mkPopTx(); }
#elif defined(M_ATV)
typedef ATV T; static T mk() { return mkAtv(); }
#elif defined(M_VTB)
typedef VTB T; static T mk() { return mkVtb(); }
#elif defined(M_POPDATA)
typedef PopData T; static T mk() { PopData d; d.context.push_back(mkVbk(5)); d.vtbs.push_back(mkVtb()); d.atvs.push_back(mkAtv()); return d; }
#elif defined(M_SBTC)
#define NO_ESTIMATE
typedef StoredBlockIndex<BtcBlock> T; static T mk() { T s; s.height = 77; *s.header = mkBtc(3); s.status = BLOCK_VALID_TREE | BLOCK_ACTIVE; s.addon.refs = {5, 9, 9}; return s; }
#elif defined(M_SVBK)
#define NO_ESTIMATE
typedef StoredBlockIndex<VbkBlock> T; static T mk() { T s; s.height = 1003; *s.header = mkVbk(3); s.status = BLOCK_VALID_TREE; s.addon._refCount = 2; uint256 id; ((uint8_t*)id.data())[0] = 9; s.addon._vtbids = {id, id}; return s; }
#elif defined(M_SALT)
#define NO_ESTIMATE
typedef StoredBlockIndex<AltBlock> T; static T mk() { T s; s.height = 12; s.header->hash = std::vector<uint8_t>(32, 5); s.header->previousBlock = std::vector<uint8_t>(32, 4); s.header->height = 12; s.header->timestamp = 1234; s.status = BLOCK_CONNECTED | BLOCK_HAS_PAYLOADS;
  uint256 a; ((uint8_t*)a.data())[0] = 1; uint96 v; ((uint8_t*)v.data())[0] = 2; s.addon._atvids = {a}; s.addon._vtbids = {a, a}; s.addon._vbkblockids = {v}; return s; }
#else
#error mode
#endif
extern "C" __attribute__((noinline)) void h_mutate() {
  auto& w = *new WriteStream();
  mk().toVbkEncoding(w);
  auto& enc = *new std::vector<uint8_t>(w.data());
  const uint32_t len = (uint32_t)enc.size();
#ifdef TRUNCATE
  enc.resize(verif_choice(0, len - 1));                      // every proper prefix
#else
#ifdef POS_LO
  const uint32_t lo = POS_LO, hi = POS_HI < len - 1 ? POS_HI : len - 1;
#else
  const uint32_t lo = 0, hi = len - 1;
#endif
  // excluded positions (stated in the bound): the characters of base58 address texts (their checksum is a SHA-256 of the text) and the
  // bytes of the embedded BTC transaction (hashed into the Merkle subject on decode) - SHA-256 of symbolic data is not encodable
  auto& excl = *new std::vector<bool>(len, false);
  auto& split = *new std::vector<bool>(len, false);   // address type / length bytes: the value is case-split (they select the text codec and drive the trip count of its loops)
  { WriteStream wa; Address().toVbkEncoding(wa); const auto& a = wa.data();
    for (uint32_t i = 0; i + a.size() <= len; i++) { bool m = true; for (size_t j = 0; m && j < a.size(); j++) m = enc[i + j] == a[j]; if (m) { split[i] = split[i + 1] = true; for (size_t j = 2; j < a.size(); j++) excl[i + j] = true; } }
    const uint8_t btx[4] = {9, 8, 7, 6};
    for (uint32_t i = 0; i + 4 <= len; i++) { bool m = true; for (int j = 0; m && j < 4; j++) m = enc[i + j] == btx[j]; if (m) for (int j = 0; j < 4; j++) excl[i + j] = true; } }
  for (int k = 0; k < NMUT; k++) { uint32_t pos = verif_choice(lo, hi); verif_assume(!excl[pos]); uint8_t v = nondet_u8(); if (split[pos]) v = (uint8_t)__verif_concretize(v); enc[pos] = v; }
#endif
  ReadStream rs(enc);
  auto& st = *new ValidationState();
  T& y = *new T();
  bool ok = DeserializeFromVbkEncoding(rs, y, st);
  if (ok) {
    auto& w2 = *new WriteStream();
    y.toVbkEncoding(w2);
#ifndef NO_ESTIMATE
    verif_check(y.estimateSize() == w2.data().size(), 1);
#endif
    verif_check(st.IsValid(), 2);
    verif_cover(1);
  } else {
    verif_check(!st.IsValid(), 3);
    verif_cover(2);
  }
  verif_observe(len);
}
