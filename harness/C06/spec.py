import os
SV = ['src/pop/stateless_validation.cpp', 'src/pop/read_stream.cpp', 'src/pop/validation_state.cpp']
SPLIT_OBL = ['containsSplit: no out-of-bounds/use-after-free/abort/throw and termination for every transaction of the stated length, all bytes symbolic',
             'containsSplit never reports an 80-byte payload inside a transaction shorter than 80 bytes']
import importlib.util as _ilu
_sp = _ilu.spec_from_file_location('c11spec', os.path.join(os.path.dirname(os.path.abspath(__file__)), '..', 'C11', 'spec.py'))
_c11 = _ilu.module_from_spec(_sp)
_sp.loader.exec_module(_c11)
HARNESSES = [
    {'name': 'h_split_short', 'src': 'C06/h_split.cpp', 'entry': 'h_split', 'repo_srcs': SV, 'covers': [1], 'obligations': SPLIT_OBL,
     'rungs': {'quick': [{'defines': ['TXMIN=0', 'TXLEN=5'], 'bound': 'tx length 0..5 (symbolic), all bytes symbolic', 'timeout': 100}]}},
    {'name': 'h_split', 'src': 'C06/h_split.cpp', 'entry': 'h_split', 'repo_srcs': SV, 'covers': [1, 2], 'obligations': SPLIT_OBL, 'jobs': 16,
     'rungs': {'quick': [{'defines': ['TXLEN=6'], 'bound': 'tx length 6, all bytes symbolic (about 0.8 M paths)', 'timeout': 200}],
               'thorough': [{'defines': ['TXLEN=7'], 'bound': 'tx length 7, all bytes symbolic', 'timeout': 3000},
                            {'defines': ['TXLEN=6'], 'bound': 'tx length 6, all bytes symbolic', 'timeout': 300}]}},
]
EXPLANATION = 'Real decoders/validators are executed symbolically over arbitrary byte strings up to the stated length; every memory access is bounds-checked by the engine.'
ASSUMPTIONS = []
# the byte-first decoder explorations are shared with C11 (same harness source; C06 relies on the engine's built-in memory-safety / abort / throw obligations)
HARNESSES += [h for h in _c11.HARNESSES if h['name'] not in ('h_serde_be', 'h_serde_fixed')]
