import os
SV = ['src/pop/stateless_validation.cpp', 'src/pop/read_stream.cpp', 'src/pop/validation_state.cpp']
SPLIT_OBL = ['containsSplit: no out-of-bounds/use-after-free/abort/throw and termination for every transaction of the stated length, all bytes symbolic',
             'containsSplit never reports an 80-byte payload inside a transaction shorter than 80 bytes']
import importlib.util as _ilu
_sp = _ilu.spec_from_file_location('c11spec', os.path.join(os.path.dirname(os.path.abspath(__file__)), '..', 'C11', 'spec.py'))
_c11 = _ilu.module_from_spec(_sp)
_sp.loader.exec_module(_c11)
HARNESSES = [
    {'name': 'h_split_short', 'src': 'C06/h_split.cpp', 'entry': 'h_split', 'repo_srcs': SV, 'covers': [1], 'obligations': SPLIT_OBL,
     'rungs': {'quick': [{'defines': ['TXMIN=0', 'TXLEN=5'], 'bound': 'tx length 0..5 (symbolic), all bytes symbolic', 'timeout': 100}]}},
    {'name': 'h_split', 'src': 'C06/h_split.cpp', 'entry': 'h_split', 'repo_srcs': SV, 'covers': [1, 2], 'obligations': SPLIT_OBL, 'jobs': 16,
     'rungs': {'quick': [{'defines': ['TXLEN=6'], 'bound': 'tx length 6, all bytes symbolic (about 0.8 M paths)', 'timeout': 200}],
               'thorough': [{'defines': ['TXLEN=7'], 'bound': 'tx length 7, all bytes symbolic', 'timeout': 3000},
                            {'defines': ['TXLEN=6'], 'bound': 'tx length 6, all bytes symbolic', 'timeout': 300}]}},
]
import sys
sys.path.insert(0, os.path.join(os.path.dirname(os.path.abspath(__file__)), '..', 'common'))
import srcsets


def MUT(name, macro, extra=(), jobs=16, tq=250):
    return {'name': 'm_' + name, 'src': 'C06/h_mutate.cpp', 'entry': 'h_mutate', 'repo_srcs': srcsets.SERDE + srcsets.ADDONS, 'defines': [macro] + list(extra), 'covers': [1, 2] if 'TRUNCATE' not in extra else [2], 'jobs': jobs, 'opts': {'fork-ptr': 1, 'max-enum': 2000, 'havoc-sha': 1},
            'obligations': ['%s decoder as a whole on %s of a valid encoding produced by the real encoder: no out-of-bounds access / use-after-free / abort / exception; failure leaves an invalid ValidationState; a successful decode gives an object whose estimateSize() equals the length of its own encoding'
                            % (name, 'every proper prefix' if 'TRUNCATE' in extra else 'every single-byte mutation (every position x every byte value)')],
            'rungs': {'quick': [{'defines': ['NMUT=1'], 'bound': ('every proper prefix of the valid encoding' if 'TRUNCATE' in extra else 'one mutated byte: every position (case split) x all 256 values (symbolic); positions inside base58 address texts and inside the embedded BTC transaction are excluded (SHA-256 of symbolic data); address decoding of arbitrary bytes is decided byte-first by h_address'), 'timeout': tq}],
                      'thorough': [{'defines': ['NMUT=2', 'POS_LO=0', 'POS_HI=60'] if 'TRUNCATE' not in extra else ['NMUT=1'], 'bound': ('as quick' if 'TRUNCATE' in extra else 'two mutated bytes among the first 61 positions (every pair x all values)'), 'timeout': 1500}]}}


MUTATE_HARNESSES = [MUT('vbktx', 'M_VBKTX'), MUT('vbkpoptx', 'M_POPTX'), MUT('atv', 'M_ATV'), MUT('vtb', 'M_VTB'), MUT('popdata', 'M_POPDATA'),
                    MUT('stored_btc', 'M_SBTC', jobs=8), MUT('stored_vbk', 'M_SVBK', jobs=8), MUT('stored_alt', 'M_SALT', jobs=8), MUT('stored_alt_trunc', 'M_SALT', extra=('TRUNCATE',), jobs=4),
                    MUT('atv_trunc', 'M_ATV', extra=('TRUNCATE',), jobs=8), MUT('vtb_trunc', 'M_VTB', extra=('TRUNCATE',), jobs=8), MUT('popdata_trunc', 'M_POPDATA', extra=('TRUNCATE',), jobs=8)]
HARNESSES += MUTATE_HARNESSES
EXPLANATION = 'Real decoders/validators are executed symbolically over arbitrary byte strings up to the stated length; every memory access is bounds-checked by the engine.'
ASSUMPTIONS = []
# the byte-first decoder explorations are shared with C11 (same harness source; C06 relies on the engine's built-in memory-safety / abort / throw obligations)
HARNESSES += [h for h in _c11.HARNESSES if h['name'] not in ('h_serde_be', 'h_serde_fixed')]
