// C06 H-SPLIT: containsSplit over an arbitrary transaction of TXLEN symbolic bytes.
// Obligations are the engine's built-in ones: no out-of-bounds / freed-memory access, no abort, no throw, termination.
#include <veriblock/pop/stateless_validation.hpp>
using namespace altintegration;
namespace altintegration {
bool containsSplit(const std::vector<uint8_t>& pop_data, const std::vector<uint8_t>& btcTx_data, ValidationState& state);
}
#ifndef TXLEN
#define TXLEN 10
#endif
extern "C" __attribute__((noinline)) void h_split() {
  auto& pop = *new std::vector<uint8_t>(80, 0x41);
#ifdef TXMIN
  uint32_t len = verif_range(TXMIN, TXLEN);
#else
  uint32_t len = TXLEN;
#endif
  auto& tx = *new std::vector<uint8_t>(len, 0);
  for (uint32_t i = 0; i < len; i++) tx[i] = nondet_u8();
  auto& st = *new ValidationState();
  bool r = containsSplit(pop, tx, st);
  verif_observe(r);
  verif_check(!r, 1);  // an 80-byte payload cannot be reconstructed from a transaction shorter than 80 bytes
  verif_cover(1);
  if (len >= 6 && tx[0] == 0x92 && tx[1] == 0x7a && tx[2] == 0x59) verif_cover(2);  // a chunk descriptor was really parsed
}
