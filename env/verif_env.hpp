// Force-included (-include) in every harness / repo translation unit compiled for verification.
// The three repo headers assert.hpp, fmt.hpp, logger.hpp are skipped by pre-defining their include guards on the
// command line; this file provides their replacements (DESIGN.md 2.4). Nothing in /repo is edited.
#pragma once
#include <algorithm>
#include <cassert>
#include <cstdint>
#include <cstdio>
#include <cstring>
#include <functional>
#include <iterator>
#include <limits>
#include <memory>
#include <stdexcept>
#include <string>
#include <type_traits>
#include <utility>
#include <vector>
#include "verif.h"
#define VBK_LIKELY(c) (c)
#define VBK_UNLIKELY(c) (c)
#define VBK_DEPRECATED
#define VBK_DEPRECATED_MSG(m)
#define VBK_ASSERT_MSG(x, ...)                   \
  do {                                           \
    if (!(x)) __verif_assert_fail(__LINE__);     \
  } while (0)
#define VBK_ASSERT(x) VBK_ASSERT_MSG(x, " ")
#define VBK_ASSERT_MSG_DEBUG(x, ...) VBK_ASSERT_MSG(x, " ")
#define VBK_ASSERT_DEBUG(x) VBK_ASSERT(x)
#define VBK_CHECK_RETURN __attribute__((warn_unused_result))
#define VBK_LOG_DEBUG(...)
#define VBK_LOG_INFO(...)
#define VBK_LOG_WARN(...)
#define VBK_LOG_ERROR(...)
#define VBK_LOG_CRITICAL(...)
namespace fmt {
template <typename T, typename C = char, typename E = void>
struct formatter;
struct format_parse_context {
  const char* begin() const { return nullptr; }
  const char* end() const { return nullptr; }
};
template <typename... A>
inline std::string format(A&&...) { return std::string(); }
template <typename... A>
inline std::string sprintf(A&&...) { return std::string(); }
template <typename O, typename... A>
inline O format_to(O o, A&&...) { return o; }
template <typename R>
inline int join(R&&, const char*) { return 0; }
}  // namespace fmt
namespace altintegration {
enum class LogLevel { debug, info, warn, error, critical, off };
template <typename S, typename... Args>
inline std::string format(const S&, Args&&...) { return std::string(); }
}  // namespace altintegration
