/* Contract-level C models of libstdc++/libc entry points that live in shared libraries (DESIGN.md 2.4).
   Compiled to IR (clang -O1 -fno-builtin) and linked into every engine-S module; engine C includes it as C.
   Each model is exercised against the real library by the concrete differential step of every run. */
#include <stdint.h>
#include <stddef.h>
void __verif_fail(uint32_t code) __attribute__((noreturn));
void __verif_assume(int c);
void* malloc(size_t);
void free(void*);
void* memcpy(void*, const void*, size_t);
void* memset(void*, int, size_t);
void* memmove(void*, const void*, size_t);
#define ASSERT(c) do { if (!(c)) __verif_fail(__LINE__); } while (0)

/* ---- red-black tree: a sorted right spine with libstdc++'s node layout and header conventions.
   node.left==0; node.right==successor or 0; node.parent==predecessor or header; header.parent==first or 0;
   header.left==first or header; header.right==last or header; header.color==0 (red), nodes 1 (black). */
typedef struct RB { uint32_t color; struct RB *parent, *left, *right; } RB;
static RB* rb_hdr_of(RB* x) { while (x->color != 0) x = x->parent; return x; }
static RB* rb_increment(RB* x) { if (x->right) return x->right; return rb_hdr_of(x); }
static RB* rb_decrement(RB* x) { if (x->color == 0) return x->right; return x->parent; }
void* _ZSt18_Rb_tree_incrementPKSt18_Rb_tree_node_base(void* x) { return rb_increment((RB*)x); }
void* _ZSt18_Rb_tree_incrementPSt18_Rb_tree_node_base(void* x) { return rb_increment((RB*)x); }
void* _ZSt18_Rb_tree_decrementPSt18_Rb_tree_node_base(void* x) { return rb_decrement((RB*)x); }
void* _ZSt18_Rb_tree_decrementPKSt18_Rb_tree_node_base(void* x) { return rb_decrement((RB*)x); }
void _ZSt29_Rb_tree_insert_and_rebalancebPSt18_Rb_tree_node_baseS0_RS_(uint8_t insert_left, void* xv, void* pv, void* hv) {
  RB *x = (RB*)xv, *p = (RB*)pv, *header = (RB*)hv;
  x->left = 0; x->color = 1;
  if (p == header) { x->parent = header; x->right = 0; header->parent = x; header->left = x; header->right = x; return; }
  if (insert_left & 1) { /* x goes immediately before p */
    RB* q = p->parent; x->right = p; x->parent = q; p->parent = x;
    if (q == header) { header->parent = x; header->left = x; } else q->right = x;
  } else { /* x goes immediately after p */
    RB* r = p->right; x->parent = p; x->right = r; p->right = x;
    if (r) r->parent = x; else header->right = x;
  }
}
void* _ZSt28_Rb_tree_rebalance_for_erasePSt18_Rb_tree_node_baseRS_(void* zv, void* hv) {
  RB *z = (RB*)zv, *header = (RB*)hv;
  RB* q = z->parent; RB* r = z->right;
  if (q == header) { header->parent = r; header->left = r ? r : header; } else q->right = r;
  if (r) r->parent = q; else header->right = (q == header) ? header : q;
  return z;
}
/* NOTE: libstdc++'s _M_lower_bound/_M_get_insert_unique_pos walk left/right children from header.parent (the root).
   With the spine, root = first element, left = 0, right = successor: the walk is a linear scan and stays correct. */

/* ---- unordered containers: never rehash (single bucket array of the initial size) */
struct R_need_rehash { uint8_t f0; uint64_t f1; };
struct R_need_rehash _ZNKSt8__detail20_Prime_rehash_policy14_M_need_rehashEmmm(void* self, uint64_t nb, uint64_t ne, uint64_t ni) {
  struct R_need_rehash r; r.f0 = 0; r.f1 = 0; return r;
}
uint64_t _ZNKSt8__detail20_Prime_rehash_policy11_M_next_bktEm(void* self, uint64_t n) { return n < 13 ? 13 : n; }
uint64_t _ZSt11_Hash_bytesPKvmm(const void* p, uint64_t len, uint64_t seed) {
  const uint8_t* b = (const uint8_t*)p; uint64_t h = seed ^ 0xcbf29ce484222325ull;
  for (uint64_t i = 0; i < len; i++) { h ^= b[i]; h *= 0x100000001b3ull; }
  return h;
}
/* ---- std::list hooks */
typedef struct LN { struct LN *next, *prev; } LN;
void _ZNSt8__detail15_List_node_base7_M_hookEPS0_(void* self, void* pos) { LN* n = (LN*)self; LN* p = (LN*)pos; n->next = p; n->prev = p->prev; p->prev->next = n; p->prev = n; }
void _ZNSt8__detail15_List_node_base9_M_unhookEv(void* self) { LN* n = (LN*)self; n->prev->next = n->next; n->next->prev = n->prev; }
void _ZNSt8__detail15_List_node_base11_M_transferEPS0_S1_(void* self, void* firstv, void* lastv) {
  LN *pos = (LN*)self, *first = (LN*)firstv, *last = (LN*)lastv;
  if (pos != last) {
    last->prev->next = pos; first->prev->next = last; pos->prev->next = first;
    LN* tmp = pos->prev; pos->prev = last->prev; last->prev = first->prev; first->prev = tmp;
  }
}
/* ---- std::string, libstdc++ SSO layout */
typedef struct STR { char* p; uint64_t len; union { char buf[16]; uint64_t cap; } u; } STR;
static uint64_t c_strlen(const char* s) { uint64_t n = 0; while (s[n]) n++; return n; }
static int str_local(STR* s) { return s->p == s->u.buf; }
static uint64_t str_cap(STR* s) { return str_local(s) ? 15 : s->u.cap; }
static void str_grow(STR* s, uint64_t need) {
  if (need <= str_cap(s)) return;
  uint64_t nc = need; if (nc < 2 * str_cap(s)) nc = 2 * str_cap(s);
  char* np = (char*)malloc(nc + 1); memcpy(np, s->p, s->len + 1);
  if (!str_local(s)) free(s->p);
  s->p = np; s->u.cap = nc;
}
void _ZNSt7__cxx1112basic_stringIcSt11char_traitsIcESaIcEEC2EPKcRKS3_(void* self, void* cs, void* alloc) {
  STR* s = (STR*)self; const char* c = (const char*)cs; uint64_t n = c_strlen(c);
  s->p = s->u.buf; s->len = 0; s->u.buf[0] = 0; str_grow(s, n); memcpy(s->p, c, n); s->len = n; s->p[n] = 0;
}
void _ZNSt7__cxx1112basic_stringIcSt11char_traitsIcESaIcEEC1EPKcRKS3_(void* self, void* cs, void* alloc) { _ZNSt7__cxx1112basic_stringIcSt11char_traitsIcESaIcEEC2EPKcRKS3_(self, cs, alloc); }
void _ZNSt7__cxx1112basic_stringIcSt11char_traitsIcESaIcEED2Ev(void* self) { STR* s = (STR*)self; if (!str_local(s)) free(s->p); }
void _ZNSt7__cxx1112basic_stringIcSt11char_traitsIcESaIcEED1Ev(void* self) { STR* s = (STR*)self; if (!str_local(s)) free(s->p); }
void* _ZNSt7__cxx1112basic_stringIcSt11char_traitsIcESaIcEE9_M_createERmm(void* self, void* capp, uint64_t oldcap) {
  uint64_t* cap = (uint64_t*)capp; if (*cap > oldcap && *cap < 2 * oldcap) *cap = 2 * oldcap; return malloc(*cap + 1);
}
void _ZNSt7__cxx1112basic_stringIcSt11char_traitsIcESaIcEE12_M_constructEmc(void* self, uint64_t n, uint8_t c) {
  STR* s = (STR*)self; s->p = s->u.buf; s->len = 0; str_grow(s, n); memset(s->p, c, n); s->len = n; s->p[n] = 0;
}
void* _ZNSt7__cxx1112basic_stringIcSt11char_traitsIcESaIcEE9_M_appendEPKcm(void* self, void* cs, uint64_t n) {
  STR* s = (STR*)self; str_grow(s, s->len + n); memcpy(s->p + s->len, cs, n); s->len += n; s->p[s->len] = 0; return s;
}
void* _ZNSt7__cxx1112basic_stringIcSt11char_traitsIcESaIcEE6appendEPKc(void* self, void* cs) { return _ZNSt7__cxx1112basic_stringIcSt11char_traitsIcESaIcEE9_M_appendEPKcm(self, cs, c_strlen((const char*)cs)); }
void* _ZNSt7__cxx1112basic_stringIcSt11char_traitsIcESaIcEE6appendEPKcm(void* self, void* cs, uint64_t n) { return _ZNSt7__cxx1112basic_stringIcSt11char_traitsIcESaIcEE9_M_appendEPKcm(self, cs, n); }
void _ZNSt7__cxx1112basic_stringIcSt11char_traitsIcESaIcEE9_M_assignERKS4_(void* self, void* other) {
  STR* s = (STR*)self; STR* o = (STR*)other; if (s == o) return; str_grow(s, o->len); memcpy(s->p, o->p, o->len); s->len = o->len; s->p[s->len] = 0;
}
void* _ZNSt7__cxx1112basic_stringIcSt11char_traitsIcESaIcEE10_M_replaceEmmPKcm(void* self, uint64_t pos, uint64_t len1, void* cs, uint64_t len2) {
  STR* s = (STR*)self; uint64_t tail = s->len - pos - len1; uint64_t nl = s->len - len1 + len2;
  char* tmp = (char*)malloc(tail + 1); memcpy(tmp, s->p + pos + len1, tail);
  char* src = (char*)malloc(len2 + 1); memcpy(src, cs, len2);
  str_grow(s, nl); memcpy(s->p + pos, src, len2); memcpy(s->p + pos + len2, tmp, tail); free(tmp); free(src); s->len = nl; s->p[nl] = 0; return s;
}
void* _ZNSt7__cxx1112basic_stringIcSt11char_traitsIcESaIcEE14_M_replace_auxEmmmc(void* self, uint64_t pos, uint64_t len1, uint64_t n2, uint8_t c) {
  char* t = (char*)malloc(n2 + 1); memset(t, c, n2);
  void* r = _ZNSt7__cxx1112basic_stringIcSt11char_traitsIcESaIcEE10_M_replaceEmmPKcm(self, pos, len1, t, n2); free(t); return r;
}
void _ZNSt7__cxx1112basic_stringIcSt11char_traitsIcESaIcEE9_M_mutateEmmPKcm(void* self, uint64_t pos, uint64_t len1, void* cs, uint64_t len2) {
  STR* s = (STR*)self; uint64_t oldlen = s->len;
  char* t = (char*)malloc(len2 + 1); if (cs) memcpy(t, cs, len2); else memset(t, 0, len2);
  _ZNSt7__cxx1112basic_stringIcSt11char_traitsIcESaIcEE10_M_replaceEmmPKcm(self, pos, len1, t, len2); free(t);
  s->len = oldlen; /* _M_mutate does not change the length; the caller sets it */
}
void _ZNSt7__cxx1112basic_stringIcSt11char_traitsIcESaIcEE7reserveEm(void* self, uint64_t n) { str_grow((STR*)self, n); }
void _ZNSt7__cxx1112basic_stringIcSt11char_traitsIcESaIcEE8_M_eraseEmm(void* self, uint64_t pos, uint64_t n) {
  STR* s = (STR*)self; memmove(s->p + pos, s->p + pos + n, s->len - pos - n); s->len -= n; s->p[s->len] = 0;
}
void _ZNSt7__cxx1112basic_stringIcSt11char_traitsIcESaIcEE4swapERS4_(void* av, void* bv) {
  STR *a = (STR*)av, *b = (STR*)bv; STR ta, tb;
  int la = str_local(a), lb = str_local(b);
  ta = *a; tb = *b;
  *a = tb; *b = ta;
  if (lb) a->p = a->u.buf;
  if (la) b->p = b->u.buf;
}
int _ZNKSt7__cxx1112basic_stringIcSt11char_traitsIcESaIcEE7compareEPKc(void* self, void* cs) {
  STR* s = (STR*)self; const unsigned char* c = (const unsigned char*)cs; uint64_t n = c_strlen((const char*)cs);
  uint64_t m = s->len < n ? s->len : n;
  for (uint64_t i = 0; i < m; i++) { unsigned char x = (unsigned char)s->p[i]; if (x != c[i]) return x < c[i] ? -1 : 1; }
  return s->len < n ? -1 : (s->len > n ? 1 : 0);
}
/* ---- C string helpers */
unsigned long strlen(const char* s) { return c_strlen(s); }
int strcmp(const char* a, const char* b) { while (*a && *a == *b) { a++; b++; } return (unsigned char)*a - (unsigned char)*b; }
int strncmp(const char* a, const char* b, unsigned long n) { for (unsigned long i = 0; i < n; i++) { if (a[i] != b[i] || !a[i]) return (unsigned char)a[i] - (unsigned char)b[i]; } return 0; }
/* ---- exception objects (construction is inert; __cxa_throw itself is an engine native) */
void _ZNSt13runtime_errorC2ERKNSt7__cxx1112basic_stringIcSt11char_traitsIcESaIcEEE(void* a, void* b) {}
void _ZNSt13runtime_errorC1ERKNSt7__cxx1112basic_stringIcSt11char_traitsIcESaIcEEE(void* a, void* b) {}
void _ZNSt13runtime_errorC2EPKc(void* a, void* b) {}
void _ZNSt13runtime_errorC1EPKc(void* a, void* b) {}
void _ZNSt13runtime_errorD2Ev(void* a) {}
void _ZNSt13runtime_errorD1Ev(void* a) {}
void _ZNSt11logic_errorC2EPKc(void* a, void* b) {}
void _ZNSt11logic_errorC1EPKc(void* a, void* b) {}
void _ZNSt12domain_errorC1EPKc(void* a, void* b) {}
void _ZNSt12domain_errorC2EPKc(void* a, void* b) {}
void _ZNSt12domain_errorC1ERKNSt7__cxx1112basic_stringIcSt11char_traitsIcESaIcEEE(void* a, void* b) {}
void _ZNSt12domain_errorC2ERKNSt7__cxx1112basic_stringIcSt11char_traitsIcESaIcEEE(void* a, void* b) {}
void _ZNSt12out_of_rangeC1EPKc(void* a, void* b) {}
void _ZNSt16invalid_argumentC1EPKc(void* a, void* b) {}
void _ZNSt16invalid_argumentC1ERKNSt7__cxx1112basic_stringIcSt11char_traitsIcESaIcEEE(void* a, void* b) {}
void _ZNSt9exceptionD2Ev(void* a) {}
uint32_t __gxx_personality_v0(void) { return 0; }
