/* Harness API shared by the symbolic engine (natives), the CBMC back end and the native replay runtime. */
#ifndef VERIF_H
#define VERIF_H
#include <stdint.h>
#ifdef __cplusplus
extern "C" {
#endif
void __verif_assert_fail(int line) __attribute__((noreturn)); /* VBK_ASSERT failed in library code            */
void __verif_check(int cond, int id);                         /* harness obligation                            */
void __verif_assume(int cond);                                /* harness precondition / bound                  */
void __verif_cover(int id);                                   /* reachability witness mark                     */
void __verif_observe(uint64_t v);                             /* appended to the observation log (differential)*/
void __verif_expect_throw(int on);
uint64_t __verif_concretize(uint64_t v);                      /* case split: returns v as a concrete value (engine forks over its feasible values) */                            /* harness declares: throws are expected here    */
uint8_t nondet_u8(void);
uint16_t nondet_u16(void);
uint32_t nondet_u32(void);
uint64_t nondet_u64(void);
int nondet_int(void);
#ifdef __cplusplus
}
static inline uint32_t verif_range(uint32_t lo, uint32_t hi) {
  uint32_t v = nondet_u32();
  __verif_assume(v >= lo && v <= hi);
  return v;
}
static inline bool verif_bool() { return (nondet_u8() & 1) != 0; }
static inline uint32_t verif_choice(uint32_t lo, uint32_t hi) { return (uint32_t)__verif_concretize(verif_range(lo, hi)); }  /* case split */
static inline bool verif_cbool() { return __verif_concretize(nondet_u8() & 1) != 0; }
#define verif_check(c, id) __verif_check((c) ? 1 : 0, id)
#define verif_assume(c) __verif_assume((c) ? 1 : 0)
#define verif_cover(id) __verif_cover(id)
#define verif_observe(v) __verif_observe((uint64_t)(v))
#endif
#endif
