// Native runtime for replay / differential validation: the same harness source is compiled with g++/clang++ against
// the real libstdc++; nondet_*() values come from a vector file; the trace format equals the engine's concrete mode.
#include <cstdint>
#include <cstdio>
#include <cstdlib>
#include <exception>
#include <vector>
#include <unistd.h>
#include "verif.h"
static std::vector<uint64_t> vec;
static size_t pos = 0;
static std::vector<uint64_t> obs;
static std::vector<int> covers, failed;
static bool expectThrow = false;
static void finish(const char* end) {
  for (auto o : obs) printf("O %llx\n", (unsigned long long)o);
  for (int c : covers) printf("C %d\n", c);
  for (int c : failed) printf("F %d\n", c);
  printf("END %s\n", end);
  fflush(stdout);
  _exit(0);
}
static uint64_t next() { return pos < vec.size() ? vec[pos++] : (pos++, 0); }
extern "C" {
uint8_t nondet_u8(void) { return (uint8_t)next(); }
uint16_t nondet_u16(void) { return (uint16_t)next(); }
uint32_t nondet_u32(void) { return (uint32_t)next(); }
uint64_t nondet_u64(void) { return next(); }
int nondet_int(void) { return (int)next(); }
void __verif_assume(int c) { if (!c) finish("infeasible"); }
void __verif_check(int c, int id) { if (!c) { failed.push_back(id); finish("violation:check"); } }
void __verif_cover(int id) { covers.push_back(id); }
void __verif_observe(uint64_t v) { obs.push_back(v); }
void __verif_expect_throw(int on) { expectThrow = on != 0; }
uint64_t __verif_concretize(uint64_t v) { return v; }
void __verif_assert_fail(int line) { char b[64]; snprintf(b, sizeof b, "violation:assert"); (void)line; finish(b); }
}
extern "C" void VERIF_ENTRY(void);
int main(int argc, char** argv) {
  if (argc > 1) {
    FILE* f = fopen(argv[1], "r");
    if (!f) { perror("vector"); return 3; }
    unsigned long long x;
    while (fscanf(f, "%llu", &x) == 1) vec.push_back(x);
    fclose(f);
  }
  std::set_terminate([]() { finish("violation:abort"); });
  try {
    VERIF_ENTRY();
  } catch (...) {
    finish(expectThrow ? "throw-expected" : "violation:throw");
  }
  finish("ret");
}
