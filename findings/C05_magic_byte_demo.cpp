// Demonstration (before the fix 'compare the VBK network byte value in VbkNetworkType::operator!='):
//   g++ -std=c++11 -I/repo/include -I<generated include dir> findings/C05_magic_byte_demo.cpp && ./a.out
// prints "testnet!=regtest: 0" on the unfixed tree: the '!=' used by checkVbkTx/checkVbkPopTx for the magic byte went through
// operator bool() and compared only hasValue.  The whole-function counterexample is findings/C05_magic_byte_replay.json
// (./check C05 --replay findings/C05_magic_byte_replay.json): checkATV accepts an ATV whose network byte is 0xBC on regtest (0xBB).
#include <veriblock/pop/entities/network_byte_pair.hpp>
#include <cstdio>
int main() {
  altintegration::VbkNetworkType a, b;
  a.hasValue = true; a.value = 0xAA; b.hasValue = true; b.value = 0xBB;
  printf("testnet!=regtest: %d\n", (int)(a != b));
  return (a != b) ? 0 : 1;
}
