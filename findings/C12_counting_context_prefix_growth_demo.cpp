#include <gtest/gtest.h>
#include <veriblock/pop/blockchain/pop/counting_context.hpp>
#include <veriblock/pop/blockchain/alt_chain_params.hpp>
#include "pop/util/pop_test_fixture.hpp"
using namespace altintegration;
struct P : public AltChainParamsRegTest { void setMax(uint32_t m) { mMaxPopDataSize = m; mMaxATVsInAltBlock = 1000; } };
TEST(T5, counting_context_admits_oversize_popdata_at_256) {
  ATV a;                                   // any ATV; all have the same size here
  size_t s0 = a.estimateSize();
  size_t T = 4 + 3 + 256 * s0 + 2 + 2;     // PopData::estimateSize() with 256 such ATVs (count prefix of 256 takes 3 bytes)
  P p; p.setMax((uint32_t)(T - 1));        // the limit is one byte below that
  CountingContext c(p);
  PopData pd;
  for (int i = 0; i < 256; i++) {
    if (!c.canFit(a)) break;
    c.update(a);
    pd.atvs.push_back(a);
  }
  printf("admitted %zu ATVs, PopData::estimateSize()=%zu, limit=%zu\n", pd.atvs.size(), pd.estimateSize(), p.getMaxPopDataSize());
  EXPECT_LE(pd.estimateSize(), p.getMaxPopDataSize());   // what assertPopDataFits() checks in MemPoolBlockTree::filterInvalidPayloads
}
