#include <gtest/gtest.h>
#include <atomic>
#include <chrono>
#include <thread>
#include "pop/util/pop_test_fixture.hpp"
#include <veriblock/pop/pop_stateless_validator.hpp>
using namespace altintegration;
static std::atomic<bool> g_returned{false};
static std::atomic<int> g_lateCalls{0};
struct SlowAlt : public AltChainParamsRegTest {
  bool checkBlockHeader(const std::vector<uint8_t>& bytes, const std::vector<uint8_t>& root, ValidationState& state) const noexcept override {
    std::this_thread::sleep_for(std::chrono::milliseconds(300));   // user-supplied header check, runs on a worker
    if (g_returned.load()) g_lateCalls++;                          // we are still validating after check() returned
    volatile uint8_t sink = 0; for (auto b : bytes) sink ^= b;     // reads the caller's PopData (ATV publication data header)
    (void)sink;
    return AltChainParamsRegTest::checkBlockHeader(bytes, root, state);
  }
};
struct T3 : public ::testing::Test, public PopTestFixture {};
TEST_F(T3, workers_still_run_after_check_returns) {
  std::vector<AltBlock> chain{altparam.getBootstrapBlock()};
  mineAltBlocks(3, chain, true, true);
  auto* pd = new PopData(endorseAltBlock({chain[1], chain[2], chain[3]}));
  ASSERT_EQ(pd->atvs.size(), 3u);
  pd->atvs[0].transaction.signature[5] ^= 0x55;   // first ATV is statelessly invalid -> fails fast (before the header check)
  SlowAlt slow;
  PopValidator validator(vbkparam, btcparam, slow, 4);
  ValidationState st;
  bool ok = checkPopData(validator, *pd, st);
  g_returned = true;
  EXPECT_FALSE(ok);
  delete pd;                                       // the caller may destroy its PopData immediately
  std::this_thread::sleep_for(std::chrono::milliseconds(800));
  printf("header checks that ran after checkPopData returned: %d\n", g_lateCalls.load());
  EXPECT_EQ(g_lateCalls.load(), 0);
}
