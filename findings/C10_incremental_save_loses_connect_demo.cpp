#include <gtest/gtest.h>
#include "pop/util/pop_test_fixture.hpp"
using namespace altintegration;
struct T4 : public ::testing::Test, public PopTestFixture {};
TEST_F(T4, incremental_save_loses_connect) {
  std::vector<AltBlock> chain{altparam.getBootstrapBlock()};
  mineAltBlocks(2, chain, /*connect*/ false, /*setState*/ false);   // headers A=chain[1], B=chain[2]
  PopData empty;
  alttree.acceptBlock(chain[2].getHash(), empty);   // body of B first: stays unconnected
  save(alttree);
  alttree.acceptBlock(chain[1].getHash(), empty);   // body of A: connects A and then B
  auto* b = alttree.getBlockIndex(chain[2].getHash());
  ASSERT_TRUE(b->isConnected());
  printf("B dirty after being connected: %d\n", (int)b->isDirty());
  save(alttree);
  AltBlockTree t2(altparam, vbkparam, btcparam, payloadsProvider, blockProvider);
  t2.btc().bootstrapWithGenesis(GetRegTestBtcBlock());
  t2.vbk().bootstrapWithGenesis(GetRegTestVbkBlock());
  t2.bootstrap();
  ASSERT_TRUE(load(t2)) << state.toString();
  auto* b2 = t2.getBlockIndex(chain[2].getHash());
  ASSERT_TRUE(b2);
  printf("original status=%u reloaded status=%u\n", b->getStatus(), b2->getStatus());
  EXPECT_EQ(b->getStatus(), b2->getStatus());
  EXPECT_TRUE(b2->isConnected());
}
