#include <gtest/gtest.h>
#include "pop/util/pop_test_fixture.hpp"
using namespace altintegration;
struct T1 : public ::testing::Test, public PopTestFixture {};
TEST_F(T1, reaccept_after_failed_pop_and_remove) {
  std::vector<AltBlock> chain{altparam.getBootstrapBlock()};
  mineAltBlocks(5, chain, true, false);
  // chain[0]=bootstrap, chain[1..5]
  auto* b3 = alttree.getBlockIndex(chain[3].getHash());
  ASSERT_TRUE(b3);
  // activate chain[2] so that 3.. are not applied
  
  alttree.invalidateSubtree(chain[3].getHash(), BLOCK_FAILED_POP);
  alttree.removeSubtree(chain[3].getHash());
  ValidationState st;
  bool r3 = alttree.acceptBlockHeader(chain[3], st);
  printf("re-accept 3: %d %s\n", (int)r3, st.toString().c_str());
  ValidationState st2;
  bool r4 = alttree.acceptBlockHeader(chain[4], st2);
  printf("re-accept 4: %d %s\n", (int)r4, st2.toString().c_str());
}
